"""C08 — saving and loading returns an equal object.

System: Emulsion / EmulsionTimeCourse / DropletTrack / DropletTrackList .to_file and
.from_file on the simulated disk (simkit.simfs) with the real HDF5 library in between.
A case is a history of write/overwrite/read operations over a few paths; with
`enumerate` the history is re-executed once per low-level I/O fault point.
"""

from __future__ import annotations

import pathlib
import random

from simkit import gen, simfs
from simkit.core import Counter, EventLog, Outcome, Streams, SutError, Violation

PROPERTY = "C08"
LEVEL = "fault_enumeration"
RULE = (
    "Each run = one seeded history of 3-12 write/overwrite/read operations over 1-3 "
    "simulated paths with generated collections (all five droplet classes, 1-3D, 1-8 "
    "amplitudes, None/0/positive widths, zero radii, empty collections and members, "
    "0-12 members, 101-120 in thorough; int/float/negative/irregular/numpy times; "
    "heterogeneous members at a low rate). Every history is executed fault-free; every 12th "
    "history is then re-executed once for EVERY low-level fault point: (write op, k-th HDF5 write, kind "
    "in ENOSPC/EIO/ENOSPC-after-torn-prefix), EIO on truncate, and (read op, k-th "
    "readinto, EIO). An evaluation is one executed (history, fault point) pair; a run is "
    "non-trivial when at least one injected fault fired; distinct = distinct run digests."
)
INTERLEAVING_MEASURE = "distinct (operation-kind sequence, object kinds, fault op, fault kind, k) tuples"
ASSUMPTIONS = [
    "faults are injected at h5py's file-object driver, one layer above HDF5's POSIX driver",
    "silent short writes and bit rot are not modelled (h5py's file-object driver ignores "
    "short counts; py-droplets claims no integrity protection)",
    "files left behind by a write that raised are 'unknown' and are not read back",
]
REAL_VS_STUB = {
    "real": ["droplets.* to_file/from_file from the working tree", "h5py high-level API",
             "HDF5 library (format encoding/decoding, metadata cache)"],
    "stub": ["lowest HDF5 file driver -> h5py file-object driver on simkit.simfs.SimFileObj "
             "(in-memory bytes, fault plan)"],
}
TIERS = {
    "quick": {"runs": 3840, "budget_s": 60, "chunk": 24, "det_pairs": 36, "fresh": 3},
    "thorough": {"runs": 190000, "budget_s": 900, "chunk_timeout": 900, "chunk": 48, "det_pairs": 384, "fresh": 16},
}

WRITE_KINDS = ["enospc", "eio", "enospc_torn"]


def isolate(case: dict) -> bool:
    """Histories with injected I/O faults run in a forked child (see runner._run_case_forked)."""
    return bool(case.get("enumerate") or case.get("fault"))


# --------------------------------------------------------------------------- generation


def generate(streams: Streams, tier: str, index: int) -> dict:
    rng = streams["workload"]
    big = tier == "thorough" and rng.random() < 0.04
    n_obj = rng.choice([1, 2, 2, 3, 4])
    objects = [gen.random_collection(rng, big=big and i == 0) for i in range(n_obj)]
    n_paths = rng.choice([1, 1, 2, 3])
    n_ops = rng.randint(3, 7 if tier == "quick" else 12)
    w_read = rng.choice([0.4, 0.5, 0.6])
    ops = [{"op": "write", "obj": 0, "path": 0, "info": rng.random() < 0.2}]
    for _ in range(n_ops - 1):
        if rng.random() < w_read:
            ops.append({"op": "read", "path": rng.randrange(n_paths),
                        "as": "stored" if rng.random() < 0.9 else
                        rng.choice(["emulsion", "etc", "track", "tracklist"])})
        else:
            ops.append({"op": "write", "obj": rng.randrange(n_obj),
                        "path": rng.randrange(n_paths), "info": rng.random() < 0.2})
    ops.append({"op": "read", "path": ops[-1]["path"] if ops[-1]["op"] == "write" else 0,
                "as": "stored"})
    # live histories: objects are built once and stay alive for the whole history; edit
    # operations (linking data, inherited list operations, appends, member mutation) are
    # interleaved with the writes, so that a write sees an object with a past
    live = index % 12 != 0 and rng.random() < 0.5
    if live:
        erng = streams["edits"]
        new_ops = []
        for o in ops:
            if o["op"] == "write":
                for _ in range(erng.choice([0, 1, 1, 2, 3, 4])):
                    new_ops.append(_gen_edit(erng, o["obj"]))
            new_ops.append(o)
        ops = new_ops
    # every 12th history gets the full fault enumeration; the others run fault-free only, which
    # is ~100x cheaper and widens the coverage of the object space (classes, dimensions, mode
    # counts, special values, collection shapes)
    return {"objects": objects, "n_paths": n_paths, "ops": ops, "enumerate": index % 12 == 0,
            "fault": None, "max_faults": 120 if tier == "quick" else 900, "live": live}


EDIT_KINDS = ["link", "link", "data", "reverse", "sort", "setitem", "delitem", "pop", "insert",
              "append", "extend", "mutate", "mutate", "jitter", "linked_write", "remove_small", "clear",
              "member_link", "member_reverse", "copy_roundtrip"]


def _gen_edit(rng, obj: int) -> dict:
    return {"op": "edit", "obj": obj, "e": rng.choice(EDIT_KINDS), "i": rng.randrange(64),
            "j": rng.randrange(64), "x": rng.choice([0.5, 2.0, 1.25, 3.0]),
            "t": rng.choice([None, None, 0, 1.5, -2, 7])}


# --------------------------------------------------------------------------- model helpers


def homogeneous(spec: dict) -> bool:
    def homo(ds):
        return len({(d["cls"], len(d["position"]), len(d.get("amplitudes", []))) for d in ds}) <= 1

    t = spec["t"]
    if t == "emulsion":
        return homo(spec["droplets"])
    if t == "etc":
        return all(homo(fr) for fr in spec["frames"])
    if t == "track":
        return homo(spec["droplets"])
    return all(homo(tr["droplets"]) for tr in spec["tracks"])


def homogeneous_obj(obj) -> bool:
    import droplets as dr

    def homo(ds):
        return len({(type(d).__name__, d.dim, len(getattr(d, "amplitudes", ())))
                    for d in ds}) <= 1

    if isinstance(obj, dr.Emulsion):
        return homo(obj)
    if isinstance(obj, dr.EmulsionTimeCourse):
        return all(homo(e) for e in obj.emulsions)
    if isinstance(obj, dr.DropletTrackList):
        return all(homo(t.droplets) for t in obj)
    return homo(obj.droplets)


def _edit_emulsion(em, op) -> str:
    """One edit of a live Emulsion (a list subclass) through its public / inherited interface."""
    e, n = op["e"], len(em)
    i, j, x = op["i"], op["j"], op["x"]
    if e == "link":
        em.get_linked_data()
    elif e == "data":
        em.data  # noqa: B018  (property access; may build caches)
    elif e == "reverse":
        em.reverse()
    elif e == "sort":
        em.sort(key=lambda d: (float(d.radius), tuple(float(v) for v in d.position)))
    elif e == "clear":
        em.clear()
    elif e == "remove_small":
        em.remove_small(x / 2)
    elif n == 0:
        return "skipped"
    elif e == "setitem":
        em[i % n] = em[j % n].copy()
    elif e == "delitem":
        del em[i % n]
    elif e == "pop":
        em.pop()
    elif e == "insert":
        em.insert(i % (n + 1), em[j % n].copy())
    elif e == "append":
        em.append(em[j % n])
    elif e == "extend":
        em.extend([em[j % n], em[i % n]])
    elif e == "mutate":
        d = em[i % n]
        d.radius = float(d.radius) * x
        pos = d.position.copy()
        pos[-1] += 0.25  # along the last axis only: axisymmetric droplets must stay on the z-axis
        d.position = pos
    elif e == "jitter":
        # numerical noise far below any tolerance, assigned through the public setter (an
        # axisymmetric droplet stays within the tolerance of its on-axis check)
        d = em[i % n]
        pos = d.position.copy()
        pos[0] += 3e-12
        pos[-1] -= 1e-13
        d.position = pos
    elif e == "linked_write":
        arr = em.get_linked_data()
        arr["radius"][i % n] = float(arr["radius"][i % n]) * x + 0.5
    else:
        return "skipped"
    return "done"


def apply_edit(obj, op) -> str:
    import droplets as dr

    e, i, j, x = op["e"], op["i"], op["j"], op["x"]
    if e == "copy_roundtrip":
        return "skipped"
    if isinstance(obj, dr.Emulsion):
        if e.startswith("member_"):
            return "skipped"
        return _edit_emulsion(obj, op)
    if isinstance(obj, dr.EmulsionTimeCourse):
        n = len(obj)
        if e == "clear":
            obj.clear()
            return "done"
        if n == 0:
            return "skipped"
        if e in ("append", "insert", "extend"):
            t = op.get("t")
            obj.append(obj.emulsions[j % n], time=None if t is None else obj.times[-1] + abs(t) + 1)
            return "done"
        # edit one frame in place (integer access hands out the stored emulsion)
        sub = {"member_link": "link", "member_reverse": "reverse"}.get(e, e)
        return _edit_emulsion(obj.emulsions[i % n], {**op, "e": sub, "i": j, "j": i})
    if isinstance(obj, dr.DropletTrackList):
        n = len(obj)
        if e == "reverse":
            obj.reverse()
        elif e == "clear":
            obj.clear()
        elif e == "remove_small":
            obj.remove_short_tracks(x)
        elif n == 0:
            return "skipped"
        elif e in ("delitem", "pop"):
            del obj[i % n]
        elif e in ("append", "insert", "extend"):
            obj.append(obj[j % n][:])
        elif e == "setitem":
            obj[i % n] = obj[j % n][:]
        else:
            return apply_edit(obj[i % n], {**op, "e": "mutate" if e == "member_link" else e})
        return "done"
    # a single track
    n = len(obj)
    if n == 0:
        return "skipped"
    if e in ("append", "insert", "extend"):
        obj.append(obj.droplets[j % n], time=obj.times[-1] + abs(op.get("t") or 1) + 0.5)
    elif e in ("mutate", "linked_write"):
        d = obj.droplets[i % n]
        d.radius = float(d.radius) * x
    elif e == "jitter":
        d = obj.droplets[i % n]
        pos = d.position.copy()
        pos[0] += 3e-12
        d.position = pos
    elif e == "data":
        obj.data  # noqa: B018
    else:
        return "skipped"
    return "done"


def _path(j: int):
    p = f"{simfs.ROOT}/file_{j}.h5"
    return pathlib.Path(p) if j % 2 else p  # both str and path-like arguments are used


def _write(obj, path, info):
    if info and not hasattr(obj, "dtype"):
        obj.to_file(path, info={"note": "x", "n": 3})
    else:
        obj.to_file(path)


def _read(kind: str, path: str):
    cls = gen.obj_class(kind)
    if kind in ("etc", "tracklist"):
        return cls.from_file(path, progress=False)
    return cls.from_file(path)


class _Run:
    """Executes ops[start:] of a history against the simulated disk and the model."""

    def __init__(self, case, fs, model, log, cnt, specs_built=None):
        self.case, self.fs, self.model, self.log, self.cnt = case, fs, model, log, cnt
        self.violations: list[Violation] = []
        self.io_counts: list[tuple[int, int]] = []
        self.live: dict[int, object] = {}

    def _object(self, k: int):
        spec = self.case["objects"][k]
        if not self.case.get("live"):
            return gen.build(spec)
        if k not in self.live:
            self.live[k] = gen.build(spec)
        return self.live[k]

    def step(self, i: int, op: dict, fault: dict | None) -> None:
        fs, model = self.fs, self.model
        plan = None
        if fault is not None and fault["op"] == i:
            plan = simfs.FaultPlan(fault["kind"], fault["k"], fault.get("torn_num", 1),
                                   fault.get("torn_den", 2))
            fs.arm(plan)
        path = None if op["op"] == "edit" else _path(op["path"] % self.case["n_paths"])
        w0, r0 = fs.total_writes, fs.total_reads
        if op["op"] == "edit":
            k = op["obj"] % len(self.case["objects"])
            obj = self._object(k)
            try:
                res = apply_edit(obj, op)
            except Exception as exc:  # an edit that fails is not C08's business (see C20)
                res = "raised:" + type(exc).__name__
            self.log.add("edit", op=i, obj=k, e=op["e"], res=res)
            self.cnt.inc("edits_" + res.split(":")[0])
            self.cnt.inc("probe.edit." + op["e"], res == "done")
            self.io_counts.append((0, 0))
            return
        if op["op"] == "write":
            k = op["obj"] % len(self.case["objects"])
            spec = self.case["objects"][k]
            obj = self._object(k)
            fp = gen.fingerprint(obj)
            is_homogeneous = homogeneous_obj(obj) if self.case.get("live") else homogeneous(spec)
            try:
                _write(obj, path, op.get("info"))
            except Exception as exc:
                err = SutError(exc)
                model[path] = ("unknown",)
                fired = plan is not None and plan.fired
                self.log.add("write_raised", op=i, path=str(path), exc=err.exc_type, fault=bool(fired))
                self.cnt.inc("writes_raised_under_fault" if fired else "writes_raised_clean")
                if not fired and is_homogeneous:
                    self.violations.append(Violation(
                        "C08.O1", f"to_file raised {err.text} for a homogeneous {spec['t']} "
                        f"without any injected fault",
                        {"kind": spec["t"], "exc_type": err.exc_type, "frame": err.frame,
                         "phase": "write"}))
            else:
                fired = plan is not None and plan.fired
                model[path] = ("known", spec["t"], fp)
                self.log.add("write_ok", op=i, path=str(path), kind=spec["t"], fault=bool(fired),
                             n=fs.total_writes - w0)
                self.cnt.inc("writes_ok")
                if fired:
                    self.cnt.inc("probe.write_returned_despite_fault")
                if gen.fingerprint(obj) != fp:
                    self.violations.append(Violation(
                        "C08.O4", f"writing modified the {spec['t']} being written",
                        {"kind": spec["t"]}))
        else:
            state = model.get(path, ("absent",))
            kind = op.get("as", "stored")
            if state[0] == "unknown":
                self.cnt.inc("probe.read_unknown_skipped")
                fs.arm(None)
                self.io_counts.append((0, 0))
                return
            if kind == "stored":
                kind = state[1] if state[0] == "known" else "emulsion"
            try:
                res = _read(kind, path)
            except Exception as exc:
                err = SutError(exc)
                fired = plan is not None and plan.fired
                self.log.add("read_raised", op=i, path=str(path), exc=err.exc_type, fault=bool(fired))
                if state[0] == "known" and state[1] == kind and not fired:
                    self.violations.append(Violation(
                        "C08.O1", f"from_file raised {err.text} for a {kind} file whose "
                        f"to_file returned normally",
                        {"kind": kind, "exc_type": err.exc_type, "frame": err.frame,
                         "phase": "read"}))
                else:
                    self.cnt.inc("reads_raised_allowed")
            else:
                fired = plan is not None and plan.fired
                if state[0] == "known" and state[1] == kind:
                    fp = gen.fingerprint(res)
                    self.log.add("read_ok", op=i, path=str(path), kind=kind, fault=bool(fired),
                                 n=fs.total_reads - r0)
                    self.cnt.inc("reads_compared")
                    if fp != state[2]:
                        self.violations.append(Violation(
                            "C08.O3" if fired else "C08.O1",
                            f"{kind} read back from {path} differs from what was written: "
                            f"{_fp_diff(state[2], fp)}"
                            f"{' (after an injected read fault)' if fired else ''}",
                            {"kind": kind, "diff": _fp_diff(state[2], fp).split(':')[0]}))
                else:
                    self.cnt.inc("probe.read_mismatched_or_absent_returned")
        fs.arm(None)
        self.io_counts.append((fs.total_writes - w0, fs.total_reads - r0))


def _fp_diff(a, b) -> str:
    if a[0] != b[0]:
        return f"type: {a[0]} vs {b[0]}"
    if a[0] == "emulsion":
        return _drops_diff(a[1], b[1])
    if a[0] in ("etc", "track"):
        if a[1] != b[1] or len(a[2]) != len(b[2]):
            return f"length: {a[1]} vs {b[1]}"
        for i, (x, y) in enumerate(zip(a[2], b[2])):
            if x[0] != y[0]:
                return f"time: item {i} time {float.fromhex(x[0])} vs {float.fromhex(y[0])}"
            if x[1] != y[1]:
                if a[0] == "etc":
                    return f"frame{i}-" + _drops_diff(x[1], y[1])
                return _drops_diff([x[1]], [y[1]])
        return "same"
    if len(a[1]) != len(b[1]):
        return f"length: {len(a[1])} vs {len(b[1])} tracks"
    for i, (x, y) in enumerate(zip(a[1], b[1])):
        if x != y:
            return f"track{i}-" + _fp_diff(x, y)
    return "same"


def _drops_diff(a, b) -> str:
    if len(a) != len(b):
        return f"count: {len(a)} vs {len(b)} droplets"
    for i, (x, y) in enumerate(zip(a, b)):
        if x[0] != y[0]:
            return f"class: droplet {i} {x[0]} vs {y[0]}"
        if x[1] != y[1]:
            return f"dtype: droplet {i} {x[1]} vs {y[1]}"
        if x[2] != y[2]:
            return f"bits: droplet {i} parameters differ"
    return "same"


# --------------------------------------------------------------------------- execution


def execute(case: dict) -> Outcome:
    log = EventLog()
    cnt = Counter()
    violations: list[Violation] = []
    ops = case["ops"]
    kinds_seq = [o["op"][0] if o["op"] != "edit" else "e:" + o["e"] for o in ops]
    narrowed = None
    inter = []
    evaluations = 0

    with simfs.SimFS(log=log, counters=cnt) as fs:
        # ---- fault-free (or single explicit fault) execution
        model: dict = {}
        run = _Run(case, fs, model, log, cnt)
        snaps = []
        for i, op in enumerate(ops):
            snaps.append((fs.snapshot(), dict(model)))
            run.step(i, op, case.get("fault"))
        evaluations += 1
        violations.extend(run.violations)
        inter.append((tuple(kinds_seq), None))
        base_counts = list(run.io_counts)
        if case.get("fault") is not None:
            f = case["fault"]
            inter.append((tuple(kinds_seq), (f["op"], f["kind"], f["k"])))

        # ---- fault enumeration: every low-level fault point of every operation
        if case.get("enumerate") and not violations:
            all_plans: list[dict] = []
            for w, op in enumerate(ops):
                nw, nr = base_counts[w]
                plans = []
                if op["op"] == "write":
                    for k in range(1, nw + 1):
                        for kind in WRITE_KINDS:
                            plans.append({"op": w, "kind": kind, "k": k})
                    plans.append({"op": w, "kind": "truncate_eio", "k": 1})
                else:
                    for k in range(1, nr + 1):
                        plans.append({"op": w, "kind": "read_eio", "k": k})
                all_plans.extend(plans)
            cap = case.get("max_faults")
            if cap and len(all_plans) > cap:
                # deterministic, evenly spaced subset that keeps the first and last point
                cnt.inc("probe.enumeration_capped")
                n = len(all_plans)
                pick = sorted({round(j * (n - 1) / (cap - 1)) for j in range(cap)})
                all_plans = [all_plans[j] for j in pick]
            else:
                cnt.inc("histories_fully_enumerated")
            for fault in all_plans:
                    w = fault["op"]
                    flog = EventLog(keep=0)
                    fs.restore(snaps[w][0])
                    frun = _Run(case, fs, dict(snaps[w][1]), flog, cnt)
                    fs.log = flog
                    for i in range(w, len(ops)):
                        frun.step(i, ops[i], fault)
                    fs.log = log
                    evaluations += 1
                    log.add("fault_run", fault=fault, digest=flog.digest())
                    inter.append((tuple(kinds_seq), (fault["op"], fault["kind"], fault["k"])))
                    if frun.violations and not violations:
                        violations.extend(frun.violations)
                        narrowed = {**case, "enumerate": False, "fault": fault}
    cnt.inc("evaluations", evaluations)
    nontrivial = any(k.startswith("fault.") and v for k, v in cnt.items())
    obj_kinds = tuple(o["t"] for o in case["objects"])
    out = Outcome(digest=log.digest(), violations=violations, counters=cnt,
                  interleaving=None, nontrivial=nontrivial, events=log.count,
                  log_head=log.head,
                  coverage_keys=[repr((s, obj_kinds, f)) for s, f in inter],
                  narrowed=narrowed)
    return out


def evidence_extra(records) -> dict:
    inter = set()
    evals = 0
    states = set()
    for r in records:
        inter.update(r["coverage_keys"])
        evals += r["counters"].get("evaluations", 0)
    return {"distinct_interleavings": len(inter), "evaluations": evals,
            "histories": len(records),
            "coverage_cells_list": sorted(inter)[:40]}


# --------------------------------------------------------------------------- shrinking


def shrink(case: dict):
    ops = case["ops"]
    f = case.get("fault")
    # drop single operations (keep the faulted op index pointing at the same op)
    for i in range(len(ops)):
        if f is not None and i == f["op"]:
            continue
        nf = None if f is None else {**f, "op": f["op"] - (1 if i < f["op"] else 0)}
        yield {**case, "ops": ops[:i] + ops[i + 1:], "fault": nf}
    # fewer objects / paths
    if len(case["objects"]) > 1:
        for i in range(len(case["objects"])):
            yield {**case, "objects": case["objects"][:i] + case["objects"][i + 1:]}
    if case["n_paths"] > 1:
        yield {**case, "n_paths": case["n_paths"] - 1}
    # smaller objects
    for oi, spec in enumerate(case["objects"]):
        for smaller in _shrink_spec(spec):
            yield {**case, "objects": case["objects"][:oi] + [smaller] + case["objects"][oi + 1:]}
    if f is not None and f["k"] > 1:
        yield {**case, "fault": {**f, "k": 1}}
        yield {**case, "fault": {**f, "k": f["k"] - 1}}
    if f is not None:
        yield {**case, "fault": None}
    for i, op in enumerate(ops):
        if op.get("info"):
            yield {**case, "ops": ops[:i] + [{**op, "info": False}] + ops[i + 1:]}


def _shrink_list(lst, keep_min=0):
    n = len(lst)
    if n > keep_min:
        half = n // 2
        if half >= 1 and n - half >= keep_min:
            yield lst[:half]
            yield lst[half:]
        for i in range(n):
            if n - 1 >= keep_min:
                yield lst[:i] + lst[i + 1:]


def _shrink_spec(spec):
    t = spec["t"]
    if t == "emulsion":
        for ds in _shrink_list(spec["droplets"]):
            yield {**spec, "droplets": ds}
        yield from ({**spec, "droplets": ds} for ds in _simplify_droplets(spec["droplets"]))
    elif t == "etc":
        n = len(spec["frames"])
        for i in range(n):
            yield {**spec, "frames": spec["frames"][:i] + spec["frames"][i + 1:],
                   "times": spec["times"][:i] + spec["times"][i + 1:]}
        for i, fr in enumerate(spec["frames"]):
            for ds in _shrink_list(fr):
                yield {**spec, "frames": spec["frames"][:i] + [ds] + spec["frames"][i + 1:]}
        if spec["times"] != list(range(n)):
            yield {**spec, "times": list(range(n))}
    elif t == "track":
        n = len(spec["droplets"])
        for i in range(n):
            yield {**spec, "droplets": spec["droplets"][:i] + spec["droplets"][i + 1:],
                   "times": spec["times"][:i] + spec["times"][i + 1:]}
        if spec["times"] != list(range(n)):
            yield {**spec, "times": list(range(n))}
        yield from ({**spec, "droplets": ds} for ds in _simplify_droplets(spec["droplets"]))
    else:
        for trs in _shrink_list(spec["tracks"]):
            yield {**spec, "tracks": trs}
        for i, tr in enumerate(spec["tracks"]):
            for s in _shrink_spec(tr):
                yield {**spec, "tracks": spec["tracks"][:i] + [s] + spec["tracks"][i + 1:]}


def _simplify_droplets(ds):
    for i, d in enumerate(ds):
        if d.get("interface_width") not in (None, 1.0) and "interface_width" in d:
            yield ds[:i] + [{**d, "interface_width": 1.0}] + ds[i + 1:]
        if any(x != round(x) for x in d["position"]):
            yield ds[:i] + [{**d, "position": [float(round(x)) for x in d["position"]]}] + ds[i + 1:]


def describe(case: dict) -> dict:
    def short(spec):
        t = spec["t"]
        if t == "emulsion":
            return {"t": t, "n": len(spec["droplets"]),
                    "classes": sorted({d["cls"] for d in spec["droplets"]})}
        if t == "etc":
            return {"t": t, "frames": [len(f) for f in spec["frames"]], "times": spec["times"][:6]}
        if t == "track":
            return {"t": t, "n": len(spec["droplets"]), "times": spec["times"][:6],
                    "classes": sorted({d["cls"] for d in spec["droplets"]})}
        return {"t": t, "tracks": [len(x["droplets"]) for x in spec["tracks"]]}

    return {"objects": [short(s) for s in case["objects"]], "n_paths": case["n_paths"],
            "ops": case["ops"], "enumerate": case.get("enumerate"), "fault": case.get("fault")}
