"""C20 — collections stay aligned and own their droplets under any sequence of edits.

Two actors share memory: the caller (keeps every droplet it passed in, every droplet /
collection / linked array it got back) and the collections.  A case is an explicit list
of operations whose operands are indices into handle tables taken modulo their length
(any sub-list is executable).  The real objects and a plain-Python reference model are
executed in lock step and compared after every step.
"""

from __future__ import annotations

import math
import random

import numpy as np

from simkit import gen, scenes
from simkit.core import Counter, EventLog, Outcome, Streams, SutError, Violation

PROPERTY = "C20"
LEVEL = "exploration"
RULE = (
    "Each run = one seeded history of 5-60 operations over emulsions, time courses, tracks "
    "and track lists (construct, append/extend with and without copy, copy, int/slice "
    "indexing, +, remove_small, remove_overlapping, get_linked_data, member merge, clear, "
    "time-course append/index/slice/get_emulsion, track append/slice, remove_short_tracks, "
    "summary queries) interleaved with caller interference events (mutating a held droplet, "
    "writing into a linked array row, mutating a droplet obtained by indexing, appending to "
    "an emulsion obtained from a time course). Per-run random operation weights (swarm). "
    "After every step all live collections, held droplets and linked arrays are compared "
    "with the list model. A run is non-trivial when at least one interference event happened "
    "after a sharing-relevant operation (insertion, copy, slice, index, link); distinct = "
    "distinct run digests."
)
INTERLEAVING_MEASURE = "distinct operation-kind bigrams and (operation, aliasing situation) pairs"
ASSUMPTIONS = [
    "aliasing after copy=False and integer indexing is adopted from the implementation "
    "(permitted, not required); everything the statement fixes is asserted",
    "remove_overlapping's choice of survivors is C10's business: survivors must be a "
    "subsequence (identity and order) of the previous members",
    "size statistics are recomputed with own closed-form volume/area formulas (1e-12 relative)",
]
REAL_VS_STUB = {
    "real": ["droplets.Emulsion, EmulsionTimeCourse, DropletTrack, DropletTrackList, all "
             "droplet classes"],
    "stub": ["the caller: simulated second actor holding references and mutating them at "
             "scheduled points; reference list model in plain Python"],
}
TIERS = {
    "quick": {"runs": 68000, "budget_s": 55, "chunk": 250, "det_pairs": 64, "fresh": 6},
    "thorough": {"runs": 560000, "budget_s": 900, "chunk_timeout": 900, "chunk": 400, "det_pairs": 512, "fresh": 32},
}

SHARING_OPS = {"em_new", "em_append", "em_extend", "em_copy", "em_slice", "em_add", "em_index",
               "em_link", "etc_new", "etc_append", "etc_index", "etc_slice", "tr_new",
               "tr_append", "tr_index", "tr_slice", "etc_ctor", "tr_ctor", "etc_get"}
INTERFERENCE_OPS = {"mutate", "write_array"}

# --------------------------------------------------------------------------- generation

OP_KINDS = [
    "new_droplet", "em_new", "em_append", "em_extend", "em_copy", "em_slice", "em_add",
    "em_index", "em_remove_small", "em_remove_overlapping", "em_link", "em_clear", "merge",
    "mutate", "write_array", "etc_new", "etc_append", "etc_index", "etc_slice", "etc_clear",
    "etc_get", "etc_ctor", "tr_new", "tr_append", "tr_index", "tr_slice", "tr_ctor", "tl_new",
    "tl_remove_short", "tl_slice", "query", "reject", "d_copy",
]


def _rand_slice(rng):
    def part():
        return rng.choice([None, None, 0, 1, 2, -1, -2, 3, 5])
    step = rng.choice([None, None, None, 1, 2, -1, -2, 3])
    return [part(), part(), step]


# ---- exhaustive part: every sequence up to a small length over a small alphabet
EXH_WARMUP = [
    {"op": "new_droplet", "cls": "DiffuseDroplet", "position": [1.0, 2.0], "radius": 2.0,
     "interface_width": 1.0},
    {"op": "new_droplet", "cls": "DiffuseDroplet", "position": [9.0, -3.0], "radius": 0.5,
     "interface_width": None},
    {"op": "em_new", "src": [0, 1], "copy": True, "via": "list", "force": False},
    {"op": "etc_new", "ems": [0], "times": "given", "t0": 0.5, "dt": 1},
    {"op": "tr_new", "ds": [0, 1], "times": "given", "t0": 1.5, "dt": 2.5},
]
EXH_ALPHABET = [
    {"op": "em_append", "em": 0, "d": 0, "copy": True, "force": False},
    {"op": "em_append", "em": 0, "d": -1, "copy": False, "force": False},
    {"op": "em_copy", "em": -1, "min_radius": None},
    {"op": "em_slice", "c": 0, "slice": [None, None, -1]},
    {"op": "em_add", "a": 0, "b": -1},
    {"op": "em_index", "c": -1, "k": 0},
    {"op": "em_link", "em": 0},
    {"op": "mutate", "d": -1, "field": "radius", "value": 3.5, "axis": 0},
    {"op": "mutate", "d": 0, "field": "position", "value": 7.25, "axis": 1},
    {"op": "write_array", "arr": -1, "row": 0, "field": "radius", "value": 1.25, "axis": 0},
    {"op": "em_remove_small", "em": 0, "min_radius": 1.0, "member": 0},
    {"op": "em_clear", "em": -1},
    {"op": "merge", "a": 0, "b": 1, "inplace": True},
    {"op": "etc_append", "etc": 0, "em": -1, "time": None, "copy": True, "plain_list": False},
    {"op": "etc_index", "c": 0, "k": -1},
    {"op": "etc_slice", "c": 0, "slice": [None, None, 2]},
    {"op": "tr_append", "tr": -1, "d": -1, "time": None},
    {"op": "tr_slice", "c": 0, "slice": [None, None, -1]},
    {"op": "tr_index", "c": -1, "k": -1},
    {"op": "em_extend", "em": -1, "ds": [0, 1], "copy": True, "force": False, "gen": True,
     "from_em": False},
]
EXH_LENGTH = {"quick": 3, "thorough": 4}
EXH_TAIL = [{"op": "query", "kind": "stats", "c": 0, "c2": 0, "perm_seed": 1},
            {"op": "query", "kind": "width", "c": -1, "c2": 0, "perm_seed": 1},
            {"op": "query", "kind": "track", "c": -1, "c2": 0, "perm_seed": 1},
            {"op": "query", "kind": "etc", "c": 0, "c2": 0, "perm_seed": 1}]


def exhaustive_size(tier: str) -> int:
    return len(EXH_ALPHABET) ** EXH_LENGTH[tier]


def generate(streams: Streams, tier: str, index: int) -> dict:
    if index < exhaustive_size(tier):
        ops, k = [], index
        for _ in range(EXH_LENGTH[tier]):
            ops.append(dict(EXH_ALPHABET[k % len(EXH_ALPHABET)]))
            k //= len(EXH_ALPHABET)
        return {"ops": [dict(o) for o in EXH_WARMUP] + ops + [dict(o) for o in EXH_TAIL],
                "exhaustive": True}
    rng = streams["workload"]
    n_ops = rng.randint(5, 40 if tier == "quick" else 60)
    weights = {k: rng.choice([0, 1, 1, 2, 3]) for k in OP_KINDS}
    for k in ("new_droplet", "em_new", "mutate"):
        weights[k] = max(weights[k], 1)
    weights["query"] = max(weights["query"], 2)
    lay = gen.random_layout(rng)
    lay2 = gen.random_layout(rng)
    r2 = rng.random()
    if r2 < 0.6:
        lay2 = dict(lay)
    elif r2 < 0.75 and lay["cls"] in ("SphericalDroplet", "DiffuseDroplet"):
        # the same kind of droplet in another space dimension (a collection that was emptied and
        # is refilled, or is filled without a consistency request, may end up holding such members)
        lay2 = {**lay, "dim": rng.choice([d for d in (1, 2, 3) if d != lay["dim"]])}
        weights["query"] = max(weights["query"], 3)
    p_lay2 = 0.45 if lay2["cls"] == lay["cls"] and lay2["dim"] != lay["dim"] else 0.2
    kinds = list(weights)
    w = [weights[k] for k in kinds]
    ops = []
    # warm-up: a few droplets and one emulsion so that early ops have operands
    for _ in range(rng.randint(2, 5)):
        ops.append({"op": "new_droplet", **gen.random_droplet(rng, lay)})
    ops.append({"op": "em_new", "src": [rng.randrange(8) for _ in range(rng.randint(0, 4))],
                "copy": True, "via": "list", "force": False})
    R = rng.randrange
    for _ in range(n_ops):
        k = rng.choices(kinds, w)[0]
        if k == "new_droplet":
            # "made": how the object came to be — constructor, pickled, or with its record held as
            # a 0-d structured array (what refine_droplet leaves behind in a refined droplet)
            ops.append({"op": k, **gen.random_droplet(rng, lay2 if rng.random() < p_lay2 else lay),
                        "made": rng.choice(["ctor", "ctor", "ctor", "refined", "pickled"])})
        elif k == "em_new":
            ops.append({"op": k, "src": [R(16) for _ in range(rng.randint(0, 5))],
                        "copy": rng.random() < 0.8, "via": rng.choice(["list", "gen", "emulsion", "dtype"]),
                        "force": rng.random() < 0.2})
        elif k == "em_append":
            ops.append({"op": k, "em": R(16), "d": R(16), "copy": rng.random() < 0.8,
                        "force": rng.random() < 0.25})
        elif k == "em_extend":
            ops.append({"op": k, "em": R(16), "ds": [R(16) for _ in range(rng.randint(0, 4))],
                        "copy": rng.random() < 0.8, "force": rng.random() < 0.2,
                        "gen": rng.random() < 0.3, "from_em": rng.random() < 0.3})
        elif k == "em_copy":
            ops.append({"op": k, "em": R(16),
                        "min_radius": rng.choice([None, None, 0, 1.0, scenes.q(rng.uniform(0, 6))])})
        elif k in ("em_slice", "etc_slice", "tr_slice", "tl_slice"):
            ops.append({"op": k, "c": R(16), "slice": _rand_slice(rng)})
        elif k == "em_add":
            ops.append({"op": k, "a": R(16), "b": R(16)})
        elif k in ("em_index", "etc_index", "tr_index"):
            ops.append({"op": k, "c": R(16), "k": rng.randint(-3, 6)})
        elif k == "em_remove_small":
            ops.append({"op": k, "em": R(16),
                        "min_radius": rng.choice([None, 0, 0, scenes.q(rng.uniform(0, 6)), "member"]),
                        "member": R(16)})
        elif k == "em_remove_overlapping":
            ops.append({"op": k, "em": R(16), "min_distance": rng.choice([0, 0, 1.0, -0.5, 50.0]),
                        "grid": rng.random() < 0.35,
                        "grid_kind": rng.choice(["cart_periodic", "cart_periodic", "cart_open",
                                                 "cart_mixed", "curvilinear"])})
        elif k in ("em_link", "em_clear"):
            ops.append({"op": k, "em": R(16)})
        elif k == "merge":
            ops.append({"op": k, "a": R(16), "b": R(16), "inplace": rng.random() < 0.5})
        elif k == "mutate":
            ops.append({"op": k, "d": R(16), "field": rng.choice(["position", "radius", "interface_width"]),
                        "value": scenes.q(rng.uniform(0.25, 9)), "axis": R(3)})
        elif k == "d_copy":
            ops.append({"op": k, "d": R(16),
                        "kw": rng.choice([None, None, "radius", "position", "interface_width"]),
                        "value": scenes.q(rng.uniform(0.25, 9)), "axis": R(3)})
        elif k == "write_array":
            ops.append({"op": k, "arr": R(8), "row": R(16), "field": rng.choice(["position", "radius"]),
                        "value": scenes.q(rng.uniform(0.25, 9)), "axis": R(3)})
        elif k == "etc_new":
            ops.append({"op": k, "ems": [R(16) for _ in range(rng.randint(0, 4))],
                        "times": rng.choice(["default", "given", "given"]),
                        "t0": scenes.q(rng.uniform(-5, 5)), "dt": rng.choice([1, 0.5, 2.25])})
        elif k == "etc_append":
            ops.append({"op": k, "etc": R(16), "em": R(16),
                        "time": rng.choice([None, None, scenes.q(rng.uniform(-10, 100))]),
                        "copy": rng.random() < 0.75, "plain_list": rng.random() < 0.15})
        elif k in ("etc_clear", "etc_ctor", "tr_ctor"):
            ops.append({"op": k, "c": R(16)})
        elif k == "etc_get":
            ops.append({"op": k, "etc": R(16), "time": scenes.q(rng.uniform(-10, 30))})
        elif k == "tr_new":
            ops.append({"op": k, "ds": [R(16) for _ in range(rng.randint(0, 4))],
                        "times": rng.choice(["none", "given"]), "t0": scenes.q(rng.uniform(-5, 5)),
                        "dt": rng.choice([1, 0.5, 3])})
        elif k == "tr_append":
            ops.append({"op": k, "tr": R(16), "d": R(16),
                        "time": rng.choice([None, None, scenes.q(rng.uniform(0, 100))])})
        elif k == "tl_new":
            ops.append({"op": k, "trs": [R(16) for _ in range(rng.randint(0, 4))]})
        elif k == "tl_remove_short":
            ops.append({"op": k, "tl": R(16), "min_duration": rng.choice([0, 0, 1, 2.5, -1])})
        elif k == "query":
            ops.append({"op": k, "kind": rng.choice(
                ["stats", "stats_novanished", "volume", "width", "bbox", "data", "len_dim",
                 "track", "track_pair", "etc", "equality", "perm"]), "c": R(16), "c2": R(16),
                "perm_seed": R(1 << 20)})
        elif k == "reject":
            ops.append({"op": k, "what": rng.choice(["force_append", "track_dim"]), "c": R(16),
                        "d": gen.random_droplet(rng, gen.random_layout(rng))})
    return {"ops": ops}


# --------------------------------------------------------------------------- model


class Cell:
    """Model of one droplet object: class name + private copy of its record."""

    __slots__ = ("cls", "rec", "link")

    def __init__(self, cls: str, rec):
        self.cls = cls
        self.rec = np.array(rec).copy()  # 0-d structured array, privately owned
        self.link = None  # (array id, row) the droplet's data currently views into

    def fresh(self) -> "Cell":
        return Cell(self.cls, self.rec)

    @property
    def key(self):
        return (self.cls, repr(self.rec.dtype.descr), self.rec.tobytes())

    @property
    def radius(self) -> float:
        return float(self.rec["radius"])

    @property
    def dim(self) -> int:
        return int(self.rec["position"].shape[0])


def _simple(x: float) -> bool:
    """Multiple of 2**-6 below 2**10: sums, squares and their roots are exact in doubles."""
    return abs(x) < 1024 and float(x * 64).is_integer()


def _gauss_nearest(x: np.ndarray, sigma: float) -> np.ndarray:
    """Gaussian average along axis 0 with nearest-value continuation (own implementation; the
    kernel is cut at 4 sigma like scipy's default)."""
    n = len(x)
    radius = int(4.0 * sigma + 0.5)
    ks = np.arange(-radius, radius + 1)
    w = np.exp(-0.5 * (ks / sigma) ** 2)
    w /= w.sum()
    out = np.zeros_like(x, dtype=float)
    for i in range(n):
        idx = np.clip(i + ks, 0, n - 1)
        out[i] = np.tensordot(w, x[idx], axes=(0, 0))
    return out


def _gap_cmp(c1: "Cell", c2: "Cell", md: float, period) -> str:
    """Compare the surface distance of two droplets with `md`: 'lt', 'ge' or 'unknown'.

    Own metric (Euclidean, or minimum image in the periodic box [-period/2, period/2)^d).
    A decision closer than 1e-9 to the threshold is only made when every quantity is a small
    dyadic number and the centre distance is rational, i.e. when any correct floating-point
    formula gives the exact result (ties included); otherwise it is 'unknown'.
    """
    import fractions

    p1 = [float(v) for v in c1.rec["position"]]
    p2 = [float(v) for v in c2.rec["position"]]
    r1, r2 = c1.radius, c2.radius
    delta = []
    for ax, (a, b) in enumerate(zip(p1, p2)):
        d = a - b
        per = period[ax] if isinstance(period, list) else period  # per axis, one for all, or none
        if per is not None:
            d = (d + per / 2) % per - per / 2
            d = min(abs(d), per - abs(d))
        delta.append(d)
    gap = math.sqrt(sum(d * d for d in delta)) - (r1 + r2)
    if not math.isfinite(gap):
        return "unknown"
    if abs(gap - md) > 1e-9 * (1 + abs(gap) + abs(md)):
        return "lt" if gap < md else "ge"
    vals = p1 + p2 + [r1, r2, md]
    if not all(_simple(v) for v in vals):
        return "unknown"
    sq = sum(fractions.Fraction(d) ** 2 for d in delta)
    num, den = sq.numerator, sq.denominator
    rn, rd = math.isqrt(num), math.isqrt(den)
    if rn * rn != num or rd * rd != den:
        return "unknown"  # irrational distance that close to the threshold: do not decide
    exact = fractions.Fraction(rn, rd) - fractions.Fraction(r1) - fractions.Fraction(r2)
    return "lt" if exact < fractions.Fraction(md) else "ge"


class MEm:
    def __init__(self, cells=None, dtype=None):
        self.cells: list[Cell] = list(cells or [])
        self.dtype = dtype


class MEtc:
    def __init__(self):
        self.times: list = []
        self.frames: list[MEm] = []


class MTrack:
    def __init__(self):
        self.times: list = []
        self.cells: list[Cell] = []


class MTl:
    def __init__(self, tracks=None):
        self.tracks: list = list(tracks or [])  # entries are indices into the track table? no: pairs


def _key(d):
    a = np.asarray(d.data)
    return (type(d).__name__, repr(a.dtype.descr), a.tobytes())


def _lay(x) -> str:
    """Layout string of a droplet / record / dtype, ignoring the record-vs-void scalar type."""
    dt = x if isinstance(x, np.dtype) else np.asarray(getattr(x, "data", x)).dtype
    return repr(dt.descr)


def cell_of(d) -> Cell:
    return Cell(type(d).__name__, d.data)


def vol(r, dim):
    return {1: 2 * r, 2: math.pi * r * r, 3: 4 * math.pi / 3 * r ** 3}[dim]


def area(r, dim):
    return {1: 2.0, 2: 2 * math.pi * r, 3: 4 * math.pi * r * r}[dim]


def close(a, b, rel=1e-12) -> bool:
    a, b = float(a), float(b)
    if math.isnan(a) and math.isnan(b):
        return True
    if a == b:
        return True
    return abs(a - b) <= rel * max(abs(a), abs(b), 1e-300)


class Machine:
    def __init__(self, log: EventLog, cnt: Counter):
        self.log, self.cnt = log, cnt
        self.V: list[Violation] = []
        self.drops: list[tuple] = []   # (droplet, Cell)
        self.ems: list[tuple] = []     # (Emulsion, MEm)
        self.etcs: list[tuple] = []
        self.tracks: list[tuple] = []
        self.tls: list[tuple] = []     # (DropletTrackList, list of MTrack)
        self.arrays: list[tuple] = []  # (ndarray, array id, n rows)
        self.next_array_id = 0
        self.cell_by_obj: dict[int, Cell] = {}  # id(real droplet) -> Cell (objects kept alive)
        self.keep: list = []
        self.em_by_obj: dict[int, MEm] = {}
        self.tr_by_obj: dict[int, MTrack] = {}
        self.sharing_seen = False
        self.interference_after_sharing = 0
        self.bigrams: set = set()
        self.alias_cov: set = set()
        self.last_kind = None

    # ---- registration helpers
    def reg_drop(self, d, cell: Cell | None = None) -> Cell:
        c = self.cell_by_obj.get(id(d))
        if c is None:
            c = cell if cell is not None else cell_of(d)
            self.cell_by_obj[id(d)] = c
            self.keep.append(d)
        return c

    def hold(self, d) -> None:
        c = self.reg_drop(d)
        if len(self.drops) < 64:
            self.drops.append((d, c))

    def viol(self, oracle, msg, **sig):
        self.V.append(Violation(oracle, msg, {k: str(v) for k, v in sig.items()}))

    # ---- model construction from fresh results
    def adopt_em_fresh(self, em, expected_cells: list[Cell], op: str, source_objs=()) -> MEm:
        """A result that must consist of independent copies of `expected_cells`."""
        m = MEm([c.fresh() for c in expected_cells])
        src_ids = {id(o) for o in source_objs}
        for i, d in enumerate(list.__iter__(em)):
            if id(d) in src_ids or id(d) in self.cell_by_obj:
                self.viol("C20.O2", f"{op}: result member {i} is the same object as a droplet of "
                          f"its source / a caller-held droplet (copies, slices and sums must be "
                          f"independent)", op=op, kind="shared_object")
            self.cell_by_obj.setdefault(id(d), m.cells[i] if i < len(m.cells) else cell_of(d))
            self.keep.append(d)
        m.dtype = getattr(em, "dtype", None)
        # a copy, slice or sum is a NEW collection of its own members ("typed slicing and
        # concatenation"): if it declares a data layout at all, that layout is one its members
        # have — not one it merely inherited from the source it was cut from
        if m.cells and m.dtype is not None and \
                _lay(np.dtype(m.dtype)) not in {_lay(c.rec) for c in m.cells}:
            self.viol("C20.O6", f"{op}: the result declares the data layout {np.dtype(m.dtype)} "
                      f"which none of its {len(m.cells)} members has", op=op,
                      kind="foreign_layout")
        self.em_by_obj[id(em)] = m
        self.keep.append(em)
        return m

    def add_em(self, em, m: MEm) -> None:
        self.em_by_obj[id(em)] = m
        self.keep.append(em)
        if len(self.ems) < 48:
            self.ems.append((em, m))

    # ---- comparison after every step
    def check_all(self, step: int, op: dict) -> None:
        for i, (d, c) in enumerate(self.drops):
            if _key(d) != c.key:
                self.viol("C20.O2", f"step {step} ({op['op']}): a droplet held by the caller changed "
                          f"although the model says it is independent (leak out of a collection)",
                          op=op["op"], kind="held_droplet_changed")
                c.rec = np.array(d.data).copy()  # resync to report each leak once
        for em, m in self.ems:
            self._cmp_em(em, m, step, op, "emulsion")
        for etc, m in self.etcs:
            if len(etc.times) != len(etc.emulsions):
                self.viol("C20.O3", f"step {step} ({op['op']}): time course has {len(etc.times)} "
                          f"times but {len(etc.emulsions)} emulsions", op=op["op"], kind="etc_alignment")
                continue
            if len(etc.times) != len(m.times) or any(
                    not _same_time(a, b) for a, b in zip(etc.times, m.times)):
                self.viol("C20.O3", f"step {step} ({op['op']}): time course times "
                          f"{_ts(etc.times)} != model {_ts(m.times)}", op=op["op"], kind="etc_times")
                m.times = list(etc.times)
                continue
            for e, me in zip(etc.emulsions, m.frames):
                self._cmp_em(e, me, step, op, "time-course frame")
        for tr, m in self.tracks:
            self._cmp_track(tr, m, step, op)
        for tl, mts in self.tls:
            if len(tl) != len(mts) or any(self.tr_by_obj.get(id(t)) is not mt for t, mt in zip(tl, mts)):
                self.viol("C20.O1", f"step {step} ({op['op']}): track list content differs from model",
                          op=op["op"], kind="tracklist")
                mts[:] = [self.tr_by_obj.get(id(t)) or MTrack() for t in tl]
        for arr, aid, n in self.arrays:
            for r in range(n):
                for c in self._cells_linked(aid, r):
                    if arr[r].tobytes() != c.rec.tobytes():
                        self.viol("C20.O4", f"step {step} ({op['op']}): linked array row {r} and its "
                                  f"droplet disagree", op=op["op"], kind="linked_row")
                        c.rec = np.array(arr[r]).copy()

    def _cells_linked(self, aid, row):
        return [c for c in self._all_cells if c.link == (aid, row)]

    @property
    def _all_cells(self):
        seen, out = set(), []
        for c in self.cell_by_obj.values():
            if id(c) not in seen:
                seen.add(id(c))
                out.append(c)
        return out

    def _cmp_em(self, em, m: MEm, step, op, what) -> None:
        real = [_key(d)
                for d in list.__iter__(em)]
        want = [c.key for c in m.cells]
        if real != want:
            kind = "length" if len(real) != len(want) else "content"
            self.viol("C20.O1", f"step {step} ({op['op']}): {what} content differs from the list "
                      f"model ({kind}: {len(real)} real vs {len(want)} model members"
                      f"{'' if kind == 'length' else ', members ' + str([i for i, (a, b) in enumerate(zip(real, want)) if a != b][:5])})",
                      op=op["op"], kind=f"em_{kind}")
            # resync the model to the implementation so one defect is reported once
            m.cells = [self.reg_drop(d) for d in list.__iter__(em)]
            for d, c in zip(list.__iter__(em), m.cells):
                c.cls, c.rec = type(d).__name__, np.array(d.data).copy()

    def _cmp_track(self, tr, m: MTrack, step, op) -> None:
        if len(tr.times) != len(tr.droplets):
            self.viol("C20.O3", f"step {step} ({op['op']}): track has {len(tr.times)} times but "
                      f"{len(tr.droplets)} droplets", op=op["op"], kind="track_alignment")
            return
        real = [_key(d)
                for d in tr.droplets]
        if real != [c.key for c in m.cells] or len(tr.times) != len(m.times) or any(
                not _same_time(a, b) for a, b in zip(tr.times, m.times)):
            self.viol("C20.O1", f"step {step} ({op['op']}): track content/times differ from the "
                      f"model (times {_ts(tr.times)} vs {_ts(m.times)})", op=op["op"], kind="track")
            m.times = list(tr.times)
            m.cells = [self.reg_drop(d) for d in tr.droplets]
            for d, c in zip(tr.droplets, m.cells):
                c.cls, c.rec = type(d).__name__, np.array(d.data).copy()


def _same_time(a, b) -> bool:
    try:
        return float(a) == float(b)
    except Exception:
        return a == b


def _ts(ts):
    return [float(t) for t in ts][:8]


# --------------------------------------------------------------------------- operations


def _pick(table, i):
    return table[i % len(table)] if table else None


def _slice(spec):
    return slice(*spec)


def run_op(M: Machine, step: int, op: dict) -> str | None:
    """Execute one operation on the real objects and the model. Returns a skip reason."""
    import droplets as dr

    k = op["op"]
    cnt = M.cnt

    def sut(fn):
        try:
            return True, fn()
        except Exception as exc:
            return False, SutError(exc)

    def unexpected(err: SutError):
        M.viol("C20.O5", f"step {step}: {k} raised {err.text} on a valid request",
               op=k, kind="raised", exc_type=err.exc_type, frame=err.frame)

    if k == "new_droplet":
        d = scenes.make_droplet(op)
        made = op.get("made", "ctor")
        if made == "refined":
            d = scenes.refined_droplet(d)
        elif made == "pickled":
            import pickle

            d = pickle.loads(pickle.dumps(d))
        M.hold(d)
        return None

    if k == "em_new":
        src = [_pick(M.drops, i) for i in op["src"]] if M.drops else []
        via = op["via"]
        if via == "emulsion":
            e0 = _pick(M.ems, op["src"][0] if op["src"] else 0)
            if e0 is None:
                return "no emulsion"
            objs = list(list.__iter__(e0[0]))
            cells = list(e0[1].cells)
            arg = e0[0]
        else:
            objs = [d for d, _ in src]
            cells = [c for _, c in src]
            arg = (x for x in objs) if via == "gen" else list(objs)
        kw = {} if op["copy"] else {"copy": False}  # copy=True is exercised as the DEFAULT
        if via == "dtype" and objs:
            kw["dtype"] = objs[0]
        layouts = {_lay(o) for o in objs}
        if op["force"]:
            kw["force_consistency"] = True
        ok, res = sut(lambda: dr.Emulsion(arg, **kw))
        if not ok:
            if op["force"] and len(layouts) > 1 and res.exc_type == "ValueError":
                cnt.inc("probe.ctor_rejected_inconsistent")
                return None
            unexpected(res)
            return None
        if op["force"] and len(layouts) > 1:
            M.viol("C20.O6", f"step {step}: Emulsion(..., force_consistency=True) accepted droplets "
                   f"with different data layouts", op=k, kind="not_rejected")
        m = MEm()
        for d, c_src, o in zip(list.__iter__(res), cells, objs):
            if op["copy"]:
                if d is o:
                    M.viol("C20.O2", f"step {step}: Emulsion(droplets) stored the caller's droplet "
                           f"object itself although copy=True", op=k, kind="shared_object")
                c = c_src.fresh()
                M.cell_by_obj[id(d)] = c
                M.keep.append(d)
            else:
                c = c_src if d is o else c_src.fresh()  # aliasing permitted, not required
                M.alias_cov.add((k, "aliased" if d is o else "copied"))
                if d is not o:
                    M.cell_by_obj[id(d)] = c
                    M.keep.append(d)
            m.cells.append(c)
        m.dtype = res.dtype
        M.add_em(res, m)
        return None

    if k in ("em_append", "em_extend"):
        e = _pick(M.ems, op["em"])
        if e is None or not M.drops:
            return "no operands"
        em, m = e
        if k == "em_append":
            items = [_pick(M.drops, op["d"])]
        elif op.get("from_em") and M.ems:
            e2 = _pick(M.ems, op["ds"][0] if op["ds"] else 0)
            items = [(d, M.reg_drop(d)) for d in list.__iter__(e2[0])]
        else:
            items = [_pick(M.drops, i) for i in op["ds"]]
        objs = [d for d, _ in items]
        before = [c for c in m.cells]
        kw = {} if op["copy"] else {"copy": False}  # copy=True is exercised as the DEFAULT
        if op["force"]:
            kw["force_consistency"] = True
        # expected rejection under force_consistency (only asserted in unambiguous states)
        lay_members = {_lay(c.rec) for c in m.cells}
        if k == "em_append":
            ok, res = sut(lambda: em.append(objs[0], **kw))
        else:
            arg = (x for x in objs) if op.get("gen") else list(objs)
            ok, res = sut(lambda: em.extend(arg, **kw))
        if not ok:
            if op["force"] and res.exc_type == "ValueError":
                cnt.inc("probe.append_rejected")
                # whatever was appended before the rejected droplet stays (extend is not atomic)
                n_new = len(em) - len(before)
                if k == "em_append" and n_new != 0:
                    M.viol("C20.O6", f"step {step}: rejected append changed the emulsion", op=k,
                           kind="rejected_but_changed")
                # only in unambiguous states: one layout among the members AND the emulsion's
                # declared dtype is that layout (the dtype is set at the first insertion and is
                # kept by clear(); an emulsion refilled with another layout is inconsistent and
                # the statement does not say what a consistency request must do there)
                if len(lay_members) == 1 and m.dtype is not None and \
                        _lay(np.dtype(m.dtype)) in lay_members and all(
                        _lay(o) in lay_members for o in objs):
                    M.viol("C20.O6", f"step {step}: append with force_consistency rejected a "
                           f"droplet of the emulsion's own layout", op=k, kind="wrongly_rejected")
                self_cells = m.cells
                for d, (o, c_src) in zip(list(list.__iter__(em))[len(before):], items):
                    self_cells.append(_ins_cell(M, k, d, o, c_src, op["copy"], step))
                return None
            unexpected(res)
            return None
        if op["force"] and len(m.cells) > 0 and len(lay_members) == 1:
            bad = [o for o in objs if _lay(o) not in lay_members]
            if bad and m.dtype is not None and _lay(np.dtype(m.dtype)) in lay_members:
                M.viol("C20.O6", f"step {step}: {k} with force_consistency accepted a droplet whose "
                       f"data layout differs from the emulsion's", op=k, kind="not_rejected")
        new = list(list.__iter__(em))[len(before):]
        if len(new) != len(objs):
            return None  # length mismatch is reported by check_all
        for d, (o, c_src) in zip(new, items):
            m.cells.append(_ins_cell(M, k, d, o, c_src, op["copy"], step))
        if m.dtype is None and m.cells:
            m.dtype = em.dtype
        return None

    if k == "em_copy":
        e = _pick(M.ems, op["em"])
        if e is None:
            return "no emulsion"
        em, m = e
        mr = op["min_radius"]
        ok, res = sut(lambda: em.copy() if mr is None else em.copy(min_radius=mr))
        if not ok:
            unexpected(res)
            return None
        keep = [c for c in m.cells if mr is None or c.radius > mr]
        M.add_em(res, M.adopt_em_fresh(res, keep, k, list.__iter__(em)))
        if type(res) is not type(em):
            M.viol("C20.O1", f"step {step}: copy returned {type(res).__name__}", op=k, kind="type")
        return None

    if k == "em_slice":
        e = _pick(M.ems, op["c"])
        if e is None:
            return "no emulsion"
        em, m = e
        sl = _slice(op["slice"])
        if sl.step == 0:
            return "zero step"
        ok, res = sut(lambda: em[sl])
        if not ok:
            unexpected(res)
            return None
        if not isinstance(res, dr.Emulsion):
            M.viol("C20.O1", f"step {step}: slicing an emulsion returned {type(res).__name__}",
                   op=k, kind="type")
            return None
        M.add_em(res, M.adopt_em_fresh(res, m.cells[sl], k, list.__iter__(em)))
        return None

    if k == "em_add":
        a, b = _pick(M.ems, op["a"]), _pick(M.ems, op["b"])
        if a is None:
            return "no emulsion"
        ok, res = sut(lambda: a[0] + b[0])
        if not ok:
            unexpected(res)
            return None
        if not isinstance(res, dr.Emulsion):
            M.viol("C20.O1", f"step {step}: adding emulsions returned {type(res).__name__}", op=k,
                   kind="type")
            return None
        M.add_em(res, M.adopt_em_fresh(res, a[1].cells + b[1].cells, k,
                                       list(list.__iter__(a[0])) + list(list.__iter__(b[0]))))
        return None

    if k == "em_index":
        e = _pick(M.ems, op["c"])
        if e is None or not e[1].cells:
            return "empty"
        em, m = e
        i = op["k"] % len(m.cells)
        ok, res = sut(lambda: em[i])
        if not ok:
            unexpected(res)
            return None
        stored = list.__getitem__(em, i)
        if res is stored:
            M.cell_by_obj[id(res)] = m.cells[i]
            M.keep.append(res)
            M.alias_cov.add((k, "stored_object"))
        else:
            M.alias_cov.add((k, "copy"))
        M.hold(res)
        return None

    if k == "em_remove_small":
        e = _pick(M.ems, op["em"])
        if e is None:
            return "no emulsion"
        em, m = e
        mr = op["min_radius"]
        if mr == "member":
            mr = m.cells[op["member"] % len(m.cells)].radius if m.cells else 0
        ok, res = sut(lambda: em.remove_small() if mr is None else em.remove_small(mr))
        if not ok:
            unexpected(res)
            return None
        if mr is not None:
            m.cells = [c for c in m.cells if not c.radius <= mr]
        return None

    if k == "em_remove_overlapping":
        e = _pick(M.ems, op["em"])
        if e is None:
            return "no emulsion"
        em, m = e
        if len({c.dim for c in m.cells}) > 1:
            return "mixed dimensions"
        kw = {"min_distance": op["min_distance"]}
        period = None
        if op["grid"] and m.cells:
            from pde import CartesianGrid, CylindricalSymGrid, PolarSymGrid, SphericalSymGrid
            d = m.cells[0].dim
            gk = op.get("grid_kind", "cart_periodic")
            if gk == "cart_open":
                kw["grid"] = CartesianGrid([[-32, 32]] * d, 8, periodic=False)
            elif gk == "cart_mixed":
                per = [i % 2 == 0 for i in range(d)]
                kw["grid"] = CartesianGrid([[-32, 32]] * d, 8, periodic=per)
                period = [64.0 if q else None for q in per]
            elif gk == "curvilinear" and d >= 2:
                # grids with a symmetry: positions stay Cartesian, the metric is Euclidean
                kw["grid"] = PolarSymGrid(48, 8) if d == 2 else (
                    SphericalSymGrid(48, 8) if op["em"] % 2 else CylindricalSymGrid(48, [-32, 32], 8))
            else:
                kw["grid"] = CartesianGrid([[-32, 32]] * d, 8, periodic=True)
                period = 64.0
            M.cnt.inc(f"probe.remove_overlapping_grid_{gk}")
        before = list(list.__iter__(em))
        ok, res = sut(lambda: em.remove_overlapping(**kw))
        if not ok:
            unexpected(res)
            return None
        after = list(list.__iter__(em))
        # survivors must be a subsequence (identity, order) of the previous members
        it = iter(range(len(before)))
        idx = []
        for d in after:
            for j in it:
                if before[j] is d:
                    idx.append(j)
                    break
            else:
                M.viol("C20.O1", f"step {step}: remove_overlapping produced a member that is not a "
                       f"previous member in the previous order", op=k, kind="not_subsequence")
                return None
        # list-model rule of "remove overlaps" (ties decided exactly, rounding-level cases skipped):
        # no surviving pair is closer than min_distance, and every removed member was closer
        # than min_distance to a member at least as large
        md = op["min_distance"]
        cells = m.cells
        keep = set(idx)
        for a in range(len(idx)):
            for b in range(a + 1, len(idx)):
                if _gap_cmp(cells[idx[a]], cells[idx[b]], md, period) == "lt":
                    M.viol("C20.O1", f"step {step}: after remove_overlapping(min_distance={md}) "
                           f"members {idx[a]} and {idx[b]} are still closer than min_distance",
                           op=k, kind="still_overlapping")
                    break
        for j in range(len(cells)):
            if j in keep:
                continue
            if not any(o != j and cells[o].radius >= cells[j].radius and
                       _gap_cmp(cells[j], cells[o], md, period) != "ge" for o in range(len(cells))):
                M.viol("C20.O1", f"step {step}: remove_overlapping(min_distance={md}) removed member "
                       f"{j} although it is not closer than min_distance to any member at least "
                       f"as large", op=k, kind="removed_separated")
                break
        M.cnt.inc("probe.remove_overlapping_removed", len(cells) - len(idx))
        m.cells = [m.cells[j] for j in idx]
        return None

    if k == "em_link":
        e = _pick(M.ems, op["em"])
        if e is None:
            return "no emulsion"
        em, m = e
        if not m.cells or len({(c.cls, _lay(c.rec)) for c in m.cells}) != 1:
            return "not homogeneous"
        ok, res = sut(lambda: em.get_linked_data())
        if not ok:
            unexpected(res)
            return None
        aid = M.next_array_id
        M.next_array_id += 1
        if len(res) != len(m.cells):
            M.viol("C20.O4", f"step {step}: linked data has {len(res)} rows for {len(m.cells)} "
                   f"members", op=k, kind="linked_rows")
            return None
        for r, c in enumerate(m.cells):
            c.link = (aid, r)
        if len(M.arrays) < 16:
            M.arrays.append((res, aid, len(res)))
        return None

    if k == "em_clear":
        e = _pick(M.ems, op["em"])
        if e is None:
            return "no emulsion"
        ok, res = sut(lambda: e[0].clear())
        if not ok:
            unexpected(res)
            return None
        e[1].cells = []
        return None

    if k == "merge":
        a, b = _pick(M.drops, op["a"]), _pick(M.drops, op["b"])
        if a is None or a[0] is b[0]:
            return "no operands"
        (da, ca), (db, cb) = a, b
        if ca.cls != cb.cls or ca.cls not in ("SphericalDroplet", "DiffuseDroplet") \
                or _lay(ca.rec) != _lay(cb.rec) or ca.radius + cb.radius <= 0:
            return "not mergeable"
        ra, rb, dim = ca.radius, cb.radius, ca.dim
        pa, pb = np.array(ca.rec["position"], dtype=float), np.array(cb.rec["position"], dtype=float)
        wa = float(ca.rec["interface_width"]) if ca.cls == "DiffuseDroplet" else None
        wb = float(cb.rec["interface_width"]) if cb.cls == "DiffuseDroplet" else None
        ok, res = sut(lambda: da.merge(db, inplace=op["inplace"]))
        if not ok:
            unexpected(res)
            return None
        # the list model's merged member: volumes add, the centre is the volume-weighted mean,
        # the width is the mean of the two widths
        va, vb = vol(ra, dim), vol(rb, dim)
        want_r = (ra ** dim + rb ** dim) ** (1.0 / dim)
        want_p = (va * pa + vb * pb) / (va + vb)
        got = np.array(res.data)
        scale = max(1.0, float(np.max(np.abs(np.r_[pa, pb]))), want_r)
        if not close(float(got["radius"]), want_r, 1e-12) or \
                float(np.max(np.abs(np.array(got["position"], dtype=float) - want_p))) > 1e-12 * scale:
            M.viol("C20.O1", f"step {step}: merging members gave radius {float(got['radius'])!r}, "
                   f"position {np.array(got['position']).tolist()} instead of radius {want_r!r}, "
                   f"position {want_p.tolist()} (radii {ra}, {rb}, inplace={op['inplace']})",
                   op=k, kind="merge_value")
        if wa is not None and not (math.isnan(wa) or math.isnan(wb)):
            if not close(float(got["interface_width"]), (wa + wb) / 2, 1e-12):
                M.viol("C20.O1", f"step {step}: merging members gave interface width "
                       f"{float(got['interface_width'])!r}, not the mean of {wa} and {wb}",
                       op=k, kind="merge_width")
        if op["inplace"]:
            if res is not da:
                M.viol("C20.O1", f"step {step}: in-place merge did not return the droplet itself",
                       op=k, kind="merge_identity")
            ca.rec = np.array(da.data).copy()
        else:
            if res is da or res is db:
                M.viol("C20.O2", f"step {step}: merge returned one of its operands", op=k,
                       kind="shared_object")
            else:
                M.hold(res)
        return None

    if k == "d_copy":
        # a copy of a single droplet (plain, or with one parameter replaced) is a new, independent
        # object; its source is left alone
        h = _pick(M.drops, op["d"])
        if h is None:
            return "no droplet"
        d, c = h
        new = c.fresh()
        f = op.get("kw")
        if f == "interface_width" and "interface_width" not in c.rec.dtype.names:
            f = "radius"
        kw = {}
        if f == "position":
            ax = op["axis"] % c.dim
            if c.cls == "PerturbedDroplet3DAxisSym" and ax < 2:
                ax = 2
            pos = np.array(c.rec["position"], dtype=float)
            pos[ax] = op["value"]
            kw["position"] = pos
            new.rec["position"] = pos
        elif f is not None:
            kw[f] = op["value"]
            new.rec[f] = op["value"]
        ok, res = sut(lambda: d.copy(**kw))
        if not ok:
            unexpected(res)
            return None
        if res is d or id(res) in M.cell_by_obj:
            M.viol("C20.O2", f"step {step}: droplet.copy({', '.join(kw)}) returned an object that "
                   "already exists", op=k, kind="shared_object")
            return None
        if type(res).__name__ != c.cls:
            M.viol("C20.O1", f"step {step}: droplet.copy() of a {c.cls} returned a "
                   f"{type(res).__name__}", op=k, kind="type")
            return None
        M.reg_drop(res, cell=new)
        M.hold(res)
        M.alias_cov.add((k, str(f)))
        cnt.inc("probe.droplet_copies")
        return None

    if k == "mutate":
        h = _pick(M.drops, op["d"])
        if h is None:
            return "no droplet"
        d, c = h
        f = op["field"]
        if f == "interface_width" and "interface_width" not in c.rec.dtype.names:
            f = "radius"
        if f == "position":
            ax = op["axis"] % c.dim
            if c.cls == "PerturbedDroplet3DAxisSym" and ax < 2:
                ax = 2
            pos = np.array(c.rec["position"], dtype=float)
            pos[ax] = op["value"]
            ok, res = sut(lambda: setattr(d, "position", pos))
            if ok:
                c.rec["position"] = pos
        elif f == "radius":
            ok, res = sut(lambda: setattr(d, "radius", op["value"]))
            if ok:
                c.rec["radius"] = op["value"]
        else:
            ok, res = sut(lambda: setattr(d, "interface_width", op["value"]))
            if ok:
                c.rec["interface_width"] = op["value"]
        if not ok:
            unexpected(res)
            return None
        if M.sharing_seen:
            M.interference_after_sharing += 1
        cnt.inc("fault.caller_mutation")
        return None

    if k == "write_array":
        a = _pick(M.arrays, op["arr"])
        if a is None or a[2] == 0:
            return "no array"
        arr, aid, n = a
        r = op["row"] % n
        cells = M._cells_linked(aid, r)
        if op["field"] == "position":
            ax = op["axis"] % arr["position"].shape[1]
            if cells and cells[0].cls == "PerturbedDroplet3DAxisSym":
                ax = 2
            arr["position"][r, ax] = op["value"]
            for c in cells:
                c.rec["position"][ax] = op["value"]
        else:
            arr["radius"][r] = op["value"]
            for c in cells:
                c.rec["radius"] = op["value"]
        cnt.inc("fault.linked_array_write")
        cnt.inc("probe.linked_write_with_live_binding" if cells else "probe.linked_write_stale_array")
        if M.sharing_seen:
            M.interference_after_sharing += 1
        return None

    if k == "etc_new":
        ems = [_pick(M.ems, i) for i in op["ems"]] if M.ems else []
        times = None
        if op["times"] == "given":
            times = [op["t0"] + i * op["dt"] for i in range(len(ems))]
        ok, res = sut(lambda: dr.EmulsionTimeCourse([e for e, _ in ems], times=times))
        if not ok:
            unexpected(res)
            return None
        m = MEtc()
        m.times = list(times) if times is not None else list(range(len(ems)))
        if len(res.emulsions) == len(ems):
            for e_real, (e_src, m_src) in zip(res.emulsions, ems):
                m.frames.append(M.adopt_em_fresh(e_real, m_src.cells, k, list.__iter__(e_src)))
        M.keep.append(res)
        if len(M.etcs) < 24:
            M.etcs.append((res, m))
        return None

    if k == "etc_append":
        t = _pick(M.etcs, op["etc"])
        e = _pick(M.ems, op["em"])
        if t is None or e is None:
            return "no operands"
        etc, m = t
        em, me = e
        arg = list(list.__iter__(em)) if op.get("plain_list") else em
        kw = {}
        if op["time"] is not None:
            kw["time"] = op["time"]
        if not op["copy"]:
            kw["copy"] = False
        n0 = len(etc.emulsions)
        ok, res = sut(lambda: etc.append(arg, **kw))
        if not ok:
            unexpected(res)
            return None
        if op["time"] is not None:
            tt = op["time"]
        else:
            tt = 0 if not m.times else m.times[-1] + 1
        m.times.append(tt)
        if len(etc.emulsions) == n0 + 1:
            new = etc.emulsions[-1]
            if new is em:
                if op["copy"]:
                    M.viol("C20.O2", f"step {step}: time course stored the caller's emulsion object "
                           f"itself (default copy)", op=k, kind="shared_object")
                m.frames.append(me)
                M.alias_cov.add((k, "aliased_emulsion"))
            elif op["copy"]:
                m.frames.append(M.adopt_em_fresh(new, me.cells, k, list.__iter__(em)))
            else:
                # copy=False: member aliasing permitted, adopt what the implementation did
                mm = MEm()
                for d, o, c in zip(list.__iter__(new), list.__iter__(em), me.cells):
                    mm.cells.append(c if d is o else c.fresh())
                    if d is not o:
                        M.cell_by_obj[id(d)] = mm.cells[-1]
                        M.keep.append(d)
                mm.dtype = new.dtype
                M.em_by_obj[id(new)] = mm
                M.keep.append(new)
                m.frames.append(mm)
                M.alias_cov.add((k, "copy_false"))
        else:
            m.frames.append(MEm([c.fresh() for c in me.cells]))
        return None

    if k == "etc_index":
        t = _pick(M.etcs, op["c"])
        if t is None or not t[1].frames:
            return "empty"
        etc, m = t
        i = op["k"] % len(m.frames)
        ok, res = sut(lambda: etc[i])
        if not ok:
            unexpected(res)
            return None
        if i < len(etc.emulsions) and res is etc.emulsions[i]:
            M.add_em(res, m.frames[i])  # the caller now holds the stored emulsion itself
            M.alias_cov.add((k, "stored_object"))
        elif isinstance(res, dr.Emulsion):
            M.add_em(res, M.adopt_em_fresh(res, m.frames[i].cells, k))
            M.alias_cov.add((k, "copy"))
        return None

    if k == "etc_get":
        t = _pick(M.etcs, op["etc"])
        if t is None or not t[1].frames:
            return "empty"
        etc, m = t
        dists = [abs(float(x) - op["time"]) for x in m.times]
        best = min(dists)
        if sum(1 for d in dists if d == best) > 1:
            M.cnt.inc("knife_edge_rejected.nearest_time_tie")
            return "tie"
        i = dists.index(best)
        ok, res = sut(lambda: etc.get_emulsion(op["time"]))
        if not ok:
            unexpected(res)
            return None
        real = [(type(d).__name__, np.asarray(d.data).tobytes()) for d in list.__iter__(res)]
        want = [(c.cls, c.rec.tobytes()) for c in m.frames[i].cells]
        if real != want:
            M.viol("C20.O7", f"step {step}: get_emulsion({op['time']}) did not return the frame "
                   f"nearest in time (times {_ts(m.times)})", op=k, kind="nearest_time")
        return None

    if k in ("etc_slice", "etc_ctor"):
        t = _pick(M.etcs, op["c"])
        if t is None:
            return "no time course"
        etc, m = t
        if k == "etc_slice":
            sl = _slice(op["slice"])
            ok, res = sut(lambda: etc[sl])
        else:
            sl = slice(None)
            ok, res = sut(lambda: dr.EmulsionTimeCourse(etc))
        if not ok:
            unexpected(res)
            return None
        if not isinstance(res, dr.EmulsionTimeCourse):
            M.viol("C20.O1", f"step {step}: {k} returned {type(res).__name__}", op=k, kind="type")
            return None
        mm = MEtc()
        mm.times = m.times[sl]
        src_frames = m.frames[sl]
        src_real = etc.emulsions[sl]
        if len(res.emulsions) == len(src_frames):
            for e_real, mf, e_src in zip(res.emulsions, src_frames, src_real):
                if e_real is e_src:
                    M.viol("C20.O2", f"step {step}: {k} shares an emulsion object with its source",
                           op=k, kind="shared_object")
                mm.frames.append(M.adopt_em_fresh(e_real, mf.cells, k, list.__iter__(e_src)))
        else:
            mm.frames = [MEm([c.fresh() for c in f.cells]) for f in src_frames]
        M.keep.append(res)
        if len(M.etcs) < 24:
            M.etcs.append((res, mm))
        return None

    if k == "etc_clear":
        t = _pick(M.etcs, op["c"])
        if t is None:
            return "no time course"
        ok, res = sut(lambda: t[0].clear())
        if not ok:
            unexpected(res)
            return None
        t[1].times, t[1].frames = [], []
        return None

    if k == "tr_new":
        items = [_pick(M.drops, i) for i in op["ds"]] if M.drops else []
        dims = [c.dim for _, c in items]
        if len(set(dims)) > 1:
            return "mixed dims"
        times = None
        if op["times"] == "given":
            times = [op["t0"] + i * op["dt"] for i in range(len(items))]
        ok, res = sut(lambda: dr.DropletTrack([d for d, _ in items], times=times))
        if not ok:
            if times is None and len(items) > 0 and res.exc_type == "ValueError":
                # documented constructor contract: droplets without times is rejected only
                # when lengths differ; DropletTrack.append fills default times, so this is
                # not expected
                pass
            unexpected(res)
            return None
        m = MTrack()
        m.times = list(times) if times is not None else list(range(len(items)))
        for d, (o, c) in zip(res.droplets, items):
            if d is o:
                M.viol("C20.O2", f"step {step}: DropletTrack stored the caller's droplet object "
                       f"itself", op=k, kind="shared_object")
            cc = c.fresh()
            M.cell_by_obj[id(d)] = cc
            M.keep.append(d)
            m.cells.append(cc)
        M.tr_by_obj[id(res)] = m
        M.keep.append(res)
        if len(M.tracks) < 32:
            M.tracks.append((res, m))
        return None

    if k == "tr_append":
        t = _pick(M.tracks, op["tr"])
        h = _pick(M.drops, op["d"])
        if t is None or h is None:
            return "no operands"
        tr, m = t
        d, c = h
        wrong = bool(m.cells) and m.cells[-1].dim != c.dim
        n0 = len(tr.droplets)
        kw = {} if op["time"] is None else {"time": op["time"]}
        ok, res = sut(lambda: tr.append(d, **kw))
        if wrong:
            if ok:
                M.viol("C20.O6", f"step {step}: track accepted a droplet of dimension {c.dim} "
                       f"(track dimension {m.cells[-1].dim})", op=k, kind="not_rejected")
            elif res.exc_type != "ValueError":
                unexpected(res)
            else:
                M.cnt.inc("probe.track_rejected_dimension")
            if ok:
                pass
            else:
                return None
        elif not ok:
            unexpected(res)
            return None
        tt = op["time"] if op["time"] is not None else (0 if not m.times else m.times[-1] + 1)
        m.times.append(tt)
        if len(tr.droplets) == n0 + 1:
            new = tr.droplets[-1]
            if new is d:
                M.viol("C20.O2", f"step {step}: track stored the caller's droplet object itself",
                       op=k, kind="shared_object")
                m.cells.append(c)
            else:
                cc = c.fresh()
                M.cell_by_obj[id(new)] = cc
                M.keep.append(new)
                m.cells.append(cc)
        else:
            m.cells.append(c.fresh())
        return None

    if k == "tr_index":
        t = _pick(M.tracks, op["c"])
        if t is None or not t[1].cells:
            return "empty"
        tr, m = t
        i = op["k"] % len(m.cells)
        ok, res = sut(lambda: tr[i])
        if not ok:
            unexpected(res)
            return None
        if i < len(tr.droplets) and res is tr.droplets[i]:
            M.cell_by_obj[id(res)] = m.cells[i]
            M.keep.append(res)
            M.alias_cov.add((k, "stored_object"))
        M.hold(res)
        return None

    if k in ("tr_slice", "tr_ctor"):
        t = _pick(M.tracks, op["c"])
        if t is None:
            return "no track"
        tr, m = t
        if k == "tr_slice":
            sl = _slice(op["slice"])
            ok, res = sut(lambda: tr[sl])
        else:
            sl = slice(None)
            ok, res = sut(lambda: dr.DropletTrack(tr))
        if not ok:
            unexpected(res)
            return None
        if not isinstance(res, dr.DropletTrack):
            M.viol("C20.O1", f"step {step}: {k} returned {type(res).__name__}", op=k, kind="type")
            return None
        mm = MTrack()
        mm.times = m.times[sl]
        src = tr.droplets[sl]
        for i, c in enumerate(m.cells[sl]):
            cc = c.fresh()
            mm.cells.append(cc)
            if i < len(res.droplets):
                if any(res.droplets[i] is s for s in src):
                    M.viol("C20.O2", f"step {step}: {k} shares a droplet object with its source",
                           op=k, kind="shared_object")
                M.cell_by_obj[id(res.droplets[i])] = cc
                M.keep.append(res.droplets[i])
        M.tr_by_obj[id(res)] = mm
        M.keep.append(res)
        if len(M.tracks) < 32:
            M.tracks.append((res, mm))
        return None

    if k == "tl_new":
        trs = [_pick(M.tracks, i) for i in op["trs"]] if M.tracks else []
        ok, res = sut(lambda: dr.DropletTrackList([t for t, _ in trs]))
        if not ok:
            unexpected(res)
            return None
        M.keep.append(res)
        if len(M.tls) < 16:
            M.tls.append((res, [m for _, m in trs]))
        return None

    if k == "tl_remove_short":
        t = _pick(M.tls, op["tl"])
        if t is None:
            return "no track list"
        tl, mts = t
        md = op["min_duration"]
        ok, res = sut(lambda: tl.remove_short_tracks(md))
        if not ok:
            unexpected(res)
            return None

        def dur(m):
            return (m.times[-1] - m.times[0]) if m.times else 0

        mts[:] = [m for m in mts if not dur(m) <= md]
        return None

    if k == "tl_slice":
        t = _pick(M.tls, op["c"])
        if t is None:
            return "no track list"
        tl, mts = t
        sl = _slice(op["slice"])
        ok, res = sut(lambda: tl[sl])
        if not ok:
            unexpected(res)
            return None
        if not isinstance(res, dr.DropletTrackList):
            M.viol("C20.O1", f"step {step}: slicing a track list returned {type(res).__name__}",
                   op=k, kind="type")
            return None
        M.keep.append(res)
        if len(M.tls) < 16:
            M.tls.append((res, mts[sl]))
        return None

    if k == "query":
        return _query(M, step, op)

    if k == "reject":
        d = scenes.make_droplet(op["d"])
        if op["what"] == "force_append":
            e = _pick(M.ems, op["c"])
            if e is None or not e[1].cells:
                return "empty"
            em, m = e
            lays = {_lay(c.rec) for c in m.cells}
            if len(lays) != 1 or m.dtype is None or _lay(np.dtype(m.dtype)) not in lays:
                return "ambiguous layout"
            n0 = len(em)
            ok, res = sut(lambda: em.append(d, force_consistency=True))
            same = _lay(d) in lays
            if same:
                if not ok:
                    M.viol("C20.O6", f"step {step}: force_consistency rejected a droplet with the "
                           f"emulsion's own layout: {res.text}", op=k, kind="wrongly_rejected")
                else:
                    c = cell_of(d)
                    new = list.__getitem__(em, -1)
                    M.cell_by_obj[id(new)] = c
                    M.keep.append(new)
                    m.cells.append(c)
            else:
                if ok:
                    M.viol("C20.O6", f"step {step}: force_consistency accepted a droplet with another "
                           f"data layout ({d.data.dtype} into {lays})", op=k, kind="not_rejected")
                    m.cells.append(cell_of(d))
                elif res.exc_type != "ValueError":
                    M.viol("C20.O6", f"step {step}: inconsistent droplet rejected with {res.text} "
                           f"instead of ValueError", op=k, kind="wrong_error")
                elif len(em) != n0:
                    M.viol("C20.O6", f"step {step}: rejected append changed the emulsion", op=k,
                           kind="rejected_but_changed")
                else:
                    M.cnt.inc("probe.append_rejected")
        else:
            t = _pick(M.tracks, op["c"])
            if t is None or not t[1].cells:
                return "empty"
            tr, m = t
            if len(d.position) == m.cells[-1].dim:
                return "same dimension"
            ok, res = sut(lambda: tr.append(d))
            if ok:
                M.viol("C20.O6", f"step {step}: track accepted a droplet of another dimension", op=k,
                       kind="not_rejected")
                m.times.append(m.times[-1] + 1)
                m.cells.append(cell_of(d))
            elif res.exc_type != "ValueError":
                M.viol("C20.O6", f"step {step}: wrong-dimension droplet rejected with {res.text} "
                       f"instead of ValueError", op=k, kind="wrong_error")
            else:
                M.cnt.inc("probe.track_rejected_dimension")
        return None
    raise ValueError(f"unknown op {k}")


def _ins_cell(M: Machine, k, d, o, c_src, copy, step) -> Cell:
    """Model cell for a droplet `d` stored in a collection after inserting caller object `o`."""
    if copy:
        if d is o:
            M.viol("C20.O2", f"step {step}: {k} stored the caller's droplet object itself although "
                   f"copy=True (default)", op=k, kind="shared_object")
            return c_src
        c = c_src.fresh()
        M.cell_by_obj[id(d)] = c
        M.keep.append(d)
        return c
    M.alias_cov.add((k, "aliased" if d is o else "copied"))
    if d is o:
        return c_src
    c = c_src.fresh()
    M.cell_by_obj[id(d)] = c
    M.keep.append(d)
    return c


# --------------------------------------------------------------------------- queries


def _query(M: Machine, step: int, op: dict):
    import droplets as dr

    kind = op["kind"]
    cnt = M.cnt

    def bad(msg, what):
        M.viol("C20.O7", f"step {step}: {msg}", op="query", kind=what)

    if kind in ("stats", "stats_novanished", "volume", "width", "bbox", "data", "len_dim", "perm",
                "equality"):
        e = _pick(M.ems, op["c"])
        if e is None:
            return "no emulsion"
        em, m = e
        cells = m.cells
        simple = all(c.cls in ("SphericalDroplet", "DiffuseDroplet") for c in cells)
        # for size statistics and the total volume also 2D perturbed droplets, whose volume is
        # not that of a disc of their radius: pi r^2 (1 + sum(a_k^2) / 2)
        simple_vol = all(c.cls in ("SphericalDroplet", "DiffuseDroplet", "PerturbedDroplet2D")
                         for c in cells)
        same_dim = len({c.dim for c in cells}) <= 1

        def cvol(c):
            if c.cls == "PerturbedDroplet2D":
                amps = [float(a) for a in np.atleast_1d(c.rec["amplitudes"])]
                return math.pi * c.radius ** 2 * (1 + math.fsum(a * a for a in amps) / 2)
            return vol(c.radius, c.dim)
        try:
            if kind == "len_dim":
                if len(em) != len(cells):
                    bad(f"len() = {len(em)}, model {len(cells)}", "len")
                if cells and same_dim and m.dtype is not None and em.dim != cells[0].dim \
                        and _lay(np.dtype(m.dtype)) == _lay(cells[0].rec):
                    bad(f"dim = {em.dim}, members have dimension {cells[0].dim}", "dim")
            elif kind in ("stats", "stats_novanished"):
                if not simple_vol:
                    return "not simple"
                if not same_dim:
                    cnt.inc("probe.stats_mixed_dimensions")
                incl = kind == "stats"
                # (the documented default counts vanished droplets)
                st = em.get_size_statistics() if incl and op.get("perm_seed", 0) % 2 else \
                    em.get_size_statistics(incl_vanished=incl)
                use = [c for c in cells if incl or c.radius > 0]
                if not cells:
                    use = []
                if st["count"] != len(use):
                    bad(f"size statistics count {st['count']} != {len(use)}", "stats_count")
                elif use:
                    rs = [c.radius for c in use]
                    vs = [cvol(c) for c in use]
                    for key, xs in (("radius", rs), ("volume", vs)):
                        mean = math.fsum(xs) / len(xs)
                        std = math.sqrt(math.fsum((x - mean) ** 2 for x in xs) / len(xs))
                        if not close(st[f"{key}_mean"], mean, 1e-11):
                            bad(f"{key}_mean {st[f'{key}_mean']!r} != {mean!r}", f"stats_{key}_mean")
                        if abs(float(st[f"{key}_std"]) - std) > 1e-9 * max(abs(mean), 1e-300):
                            bad(f"{key}_std {st[f'{key}_std']!r} != {std!r}", f"stats_{key}_std")
                elif cells and not all(math.isnan(float(st[k2])) for k2 in
                                       ("radius_mean", "radius_std", "volume_mean", "volume_std")):
                    pass  # numpy mean of an empty list: nan with a warning; not asserted
                cnt.inc("queries.stats")
            elif kind == "volume":
                if not simple_vol:
                    return "not simple"
                if cells and m.dtype is not None and "position" in (np.dtype(m.dtype).names or ()) and \
                        any(np.dtype(m.dtype)["position"].shape != (c.dim,) for c in cells):
                    # members of another dimension than the declared layout (cleared and refilled,
                    # or filled without a consistency request): each member counts with its own volume
                    cnt.inc("probe.volume_members_of_undeclared_dimension")
                want = math.fsum(cvol(c) for c in cells)
                if not close(em.total_droplet_volume, want, 1e-11):
                    bad(f"total_droplet_volume {em.total_droplet_volume!r} != {want!r}", "volume")
                cnt.inc("queries.volume")
            elif kind == "width":
                if not simple:
                    return "not simple"
                num = den = 0.0
                terms_n, terms_d = [], []
                for c in cells:
                    if "interface_width" in c.rec.dtype.names:
                        w = float(c.rec["interface_width"])
                        if not math.isnan(w):
                            a = area(c.radius, c.dim)
                            terms_n.append(w * a)
                            terms_d.append(a)
                num, den = math.fsum(terms_n), math.fsum(terms_d)
                got = em.interface_width
                if den == 0:
                    if got is not None:
                        bad(f"interface_width {got!r} for an emulsion without any interface", "width")
                elif got is None or not close(got, num / den, 1e-11):
                    bad(f"interface_width {got!r} != area-weighted mean {num / den!r}", "width")
                cnt.inc("queries.width")
            elif kind == "bbox":
                if not cells or not same_dim:
                    return "empty"
                lo = np.min([c.rec["position"] - c.radius for c in cells], axis=0)
                hi = np.max([c.rec["position"] + c.radius for c in cells], axis=0)
                b = np.array(em.bbox.bounds)
                scale = max(1.0, float(np.max(np.abs(np.r_[lo, hi]))))
                if np.max(np.abs(b[:, 0] - lo)) > 1e-12 * scale or np.max(np.abs(b[:, 1] - hi)) > 1e-12 * scale:
                    bad(f"bbox {b.tolist()} != [{lo.tolist()}, {hi.tolist()}]", "bbox")
                cnt.inc("queries.bbox")
            elif kind == "data":
                if not cells or len({(c.cls, _lay(c.rec)) for c in cells}) != 1:
                    return "not homogeneous"
                arr = em.data
                if len(arr) != len(cells) or any(arr[i].tobytes() != c.rec.tobytes()
                                                 for i, c in enumerate(cells)):
                    bad("emulsion.data does not equal the members' data in order", "data")
                before = [c.rec.tobytes() for c in cells]
                if len(arr):
                    arr["radius"][0] = 123.0  # the returned array is a copy
                    if [np.asarray(d.data).tobytes() for d in list.__iter__(em)] != before:
                        bad("writing into emulsion.data changed the emulsion", "data_not_copy")
                cnt.inc("queries.data")
            elif kind == "perm":
                if not (simple and same_dim) or len(cells) < 2:
                    return "not simple"
                r = random.Random(op["perm_seed"])
                idx = list(range(len(cells)))
                r.shuffle(idx)
                members = list(list.__iter__(em))
                p = dr.Emulsion([members[i] for i in idx])
                s1, s2 = em.get_size_statistics(), p.get_size_statistics()
                if s1["count"] != s2["count"] or any(
                        abs(float(s1[k2]) - float(s2[k2])) > 1e-12 * max(abs(float(s1[k2])), 1)
                        for k2 in s1 if k2 != "count"):
                    bad("size statistics depend on member order", "perm_stats")
                if not close(em.total_droplet_volume, p.total_droplet_volume):
                    bad("total volume depends on member order", "perm_volume")
                w1, w2 = em.interface_width, p.interface_width
                if (w1 is None) != (w2 is None) or (w1 is not None and not close(w1, w2)):
                    bad("interface width depends on member order", "perm_width")
                if not np.allclose(np.array(em.bbox.bounds), np.array(p.bbox.bounds), rtol=1e-12, atol=1e-12):
                    bad("bounding box depends on member order", "perm_bbox")
                cnt.inc("queries.perm")
            elif kind == "equality":
                if len({(c.cls, _lay(c.rec)) for c in cells}) > 1:
                    return "not homogeneous"
                cp = em.copy()
                if not (cp == em):
                    bad("an emulsion does not compare equal to its copy", "equality_copy")
                e2 = _pick(M.ems, op["c2"])
                if e2 is not None and e2[0] is not em:
                    c2 = e2[1].cells
                    if len({(c.cls, _lay(c.rec)) for c in cells + c2}) <= 1:
                        want = [c.rec.tobytes() for c in cells] == [c.rec.tobytes() for c in c2]
                        nan_free = all(b"\x00\x00\x00\x00\x00\x00\xf8\x7f" not in c.rec.tobytes()
                                       for c in cells + c2)
                        got = em == e2[0]
                        if nan_free and bool(got) != want and not any(
                                b"\x80" in c.rec.tobytes()[7::8] for c in cells + c2):
                            bad(f"emulsion equality {got} but contents equal={want}", "equality")
                cnt.inc("queries.equality")
        except Exception as exc:
            err = SutError(exc)
            M.viol("C20.O5", f"step {step}: query {kind} raised {err.text}", op="query", kind="raised",
                   exc_type=err.exc_type, frame=err.frame, query=kind)
        return None

    if kind in ("track", "track_pair"):
        t = _pick(M.tracks, op["c"])
        if t is None:
            return "no track"
        tr, m = t
        try:
            if kind == "track":
                if len(tr) != len(m.cells):
                    bad(f"len(track) {len(tr)} != {len(m.cells)}", "track_len")
                if m.cells:
                    if not (_same_time(tr.start, m.times[0]) and _same_time(tr.end, m.times[-1])):
                        bad("track start/end differ from first/last time", "track_start_end")
                    if not close(tr.duration, m.times[-1] - m.times[0]):
                        bad(f"track duration {tr.duration} != {m.times[-1] - m.times[0]}", "duration")
                    if tr.dim != m.cells[-1].dim:
                        bad("track dim", "track_dim")
                    traj = tr.get_trajectory()
                    want = np.array([c.rec["position"] for c in m.cells])
                    if traj.shape != want.shape or traj.tobytes() != want.tobytes():
                        bad("trajectory differs from member positions", "trajectory")
                    sigma = [0.5, 1.0, 2.5][op.get("perm_seed", 0) % 3]
                    if op.get("perm_seed", 0) % 4 == 0 and len(m.cells) >= 1:
                        # a smoothed trajectory is the Gaussian average (width sigma frames,
                        # nearest-value continuation at both ends) of the members' positions
                        sm = tr.get_trajectory(smoothing=sigma)
                        ref = _gauss_nearest(want.astype(float), sigma)
                        if sm.shape != want.shape or not np.allclose(sm, ref, rtol=1e-9, atol=1e-9):
                            bad(f"trajectory smoothed with sigma={sigma} is not the Gaussian average "
                                "of the member positions", "trajectory_smoothed")
                        if tr.get_trajectory().tobytes() != want.tobytes():
                            bad("smoothing changed the trajectory returned afterwards", "trajectory")
                        cnt.inc("queries.trajectory_smoothed")
                    radii = tr.get_radii()
                    if [float(x) for x in radii] != [c.radius for c in m.cells]:
                        bad("radii differ from member radii", "radii")
                    if all(c.cls in ("SphericalDroplet", "DiffuseDroplet") for c in m.cells):
                        vols = tr.get_volumes()
                        if any(not close(a, vol(c.radius, c.dim), 1e-12) for a, c in zip(vols, m.cells)):
                            bad("volumes differ from member volumes", "volumes")
                    i = op["c2"] % len(m.cells)
                    tq = m.times[i]
                    first = next(j for j, x in enumerate(m.times) if _same_time(x, tq))
                    pos = tr.get_position(tq)
                    if np.asarray(pos).tobytes() != m.cells[first].rec["position"].tobytes():
                        bad("get_position(time) is not the position of the droplet at that time",
                            "get_position")
                    pairs = list(tr.items())
                    if len(pairs) != len(m.cells):
                        bad("items() length", "items")
                else:
                    if tr.duration != 0:
                        bad("duration of an empty track is not 0", "duration_empty")
                    if tr.dim is not None:
                        bad("dim of an empty track is not None", "dim_empty")
                cnt.inc("queries.track")
            else:
                t2 = _pick(M.tracks, op["c2"])
                if not m.cells or not t2[1].cells:
                    return "empty"
                a0, a1 = m.times[0], m.times[-1]
                b0, b1 = t2[1].times[0], t2[1].times[-1]
                want = a0 <= b1 and b0 <= a1
                if bool(tr.time_overlaps(t2[0])) != want:
                    bad(f"time_overlaps = {tr.time_overlaps(t2[0])} for spans [{a0},{a1}] and [{b0},{b1}]",
                        "time_overlaps")
                cnt.inc("queries.time_overlaps")
        except Exception as exc:
            err = SutError(exc)
            M.viol("C20.O5", f"step {step}: query {kind} raised {err.text}", op="query", kind="raised",
                   exc_type=err.exc_type, frame=err.frame, query=kind)
        return None

    if kind == "etc":
        t = _pick(M.etcs, op["c"])
        if t is None:
            return "no time course"
        etc, m = t
        try:
            if len(etc) != len(m.times):
                bad(f"len(time course) {len(etc)} != {len(m.times)}", "etc_len")
            pairs = list(etc.items())
            if len(pairs) != len(m.times) or any(not _same_time(a[0], b) for a, b in zip(pairs, m.times)):
                bad("items() does not pair times with emulsions in order", "etc_items")
            cp = dr.EmulsionTimeCourse(etc)
            if len({(c.cls) for f in m.frames for c in f.cells}) <= 1 and not (cp == etc):
                bad("a time course does not compare equal to its copy", "etc_equality")
            cnt.inc("queries.etc")
        except Exception as exc:
            err = SutError(exc)
            M.viol("C20.O5", f"step {step}: query {kind} raised {err.text}", op="query", kind="raised",
                   exc_type=err.exc_type, frame=err.frame, query=kind)
        return None
    return "unknown query"


# --------------------------------------------------------------------------- execution


def execute(case: dict) -> Outcome:
    log = EventLog()
    cnt = Counter()
    M = Machine(log, cnt)
    executed = []
    if case.get("exhaustive"):
        cnt.inc("exhaustive_sequences")
    for step, op in enumerate(case["ops"]):
        k = op["op"]
        skip = run_op(M, step, op)
        if skip is not None:
            cnt.inc("ops_skipped")
            log.add("skip", step=step, op=k, why=skip)
            continue
        cnt.inc("ops_executed")
        cnt.inc(f"op.{k}")
        executed.append(k)
        if M.last_kind is not None:
            M.bigrams.add((M.last_kind, k))
        M.last_kind = k
        if k in SHARING_OPS:
            M.sharing_seen = True
        M.check_all(step, op)
        log.add("op", step=step, op=k,
                state=[len(M.drops), [len(m.cells) for _, m in M.ems][:12],
                       [len(m.times) for _, m in M.etcs][:8], [len(m.times) for _, m in M.tracks][:8],
                       [len(x) for _, x in M.tls][:6], len(M.arrays)],
                nviol=len(M.V))
        if len(M.V) > 8:
            break
    cov = [f"bigram:{a}>{b}" for a, b in sorted(M.bigrams)] + [f"alias:{a}:{b}" for a, b in sorted(M.alias_cov)]
    return Outcome(digest=log.digest(), violations=M.V[:6], counters=cnt,
                   nontrivial=M.interference_after_sharing > 0, events=log.count, log_head=log.head,
                   coverage_keys=cov)


def evidence_extra(records) -> dict:
    cov = set()
    for r in records:
        cov.update(r["coverage_keys"])
    return {"distinct_interleavings": len(cov),
            "operation_bigrams": sum(1 for c in cov if c.startswith("bigram:")),
            "aliasing_situations": sorted(c for c in cov if c.startswith("alias:")),
            "coverage_cells_list": sorted(cov)[:60]}


def shrink(case: dict):
    ops = case["ops"]
    n = len(ops)
    size = n // 2
    while size >= 1:
        for start in range(0, n, size):
            yield {"ops": ops[:start] + ops[start + size:]}
        size //= 2
    for i, op in enumerate(ops):
        if op["op"] == "new_droplet":
            if op.get("interface_width") not in (None, 1.0) and "interface_width" in op:
                yield {"ops": ops[:i] + [{**op, "interface_width": 1.0}] + ops[i + 1:]}
            if any(x != round(x) for x in op["position"]):
                yield {"ops": ops[:i] + [{**op, "position": [float(round(x)) for x in op["position"]]}] + ops[i + 1:]}
        for key in ("src", "ds", "ems", "trs"):
            if key in op and len(op[key]) > 1:
                for j in range(len(op[key])):
                    yield {"ops": ops[:i] + [{**op, key: op[key][:j] + op[key][j + 1:]}] + ops[i + 1:]}


def describe(case: dict) -> dict:
    return {"n_ops": len(case["ops"]), "ops": [o["op"] for o in case["ops"]],
            "first_ops": case["ops"][:8]}
