"""C06 — tracking neither loses, duplicates nor alters droplets.

System: DropletTrackList.from_emulsion_time_course consuming histories produced by the
droplet world and camera (simkit.world), fed as emulsions (exact ground truth).
"""

from __future__ import annotations

import collections
import math

import numpy as np

from simkit import gen, scenes, world
from simkit.core import Counter, EventLog, Outcome, Streams, SutError, Violation

PROPERTY = "C06"
LEVEL = "exploration"
RULE = (
    "Each run = one seeded world history (0-12 frames, 0-8 droplets, 1-3D, periodic and "
    "non-periodic boxes; events nucleate/drift/grow/dissolve/coalesce/split; camera faults "
    "outage, dropped frame, duplicate frame, in-frame shuffle; int/float/negative/"
    "irregular/numpy time stamps) x every tracking configuration in the case (method in "
    "{overlap, distance}, grid passed or not, max_dist in {inf, random, 0}). A run is "
    "non-trivial when the history has >= 2 frames and contains an appearance, a "
    "disappearance, an empty frame or a camera fault; distinct = distinct run digests."
)
INTERLEAVING_MEASURE = "distinct (method, grid?, max_dist class, per-frame droplet counts, camera faults) tuples"
ASSUMPTIONS = [
    "histories are fed as emulsions (no rendering); times are strictly increasing",
    "whether tracks share droplet objects with the input is not asserted (copy-on-append is C20's business)",
]
REAL_VS_STUB = {
    "real": ["droplets.DropletTrackList.from_emulsion_time_course, DropletTrack, Emulsion, "
             "EmulsionTimeCourse, SphericalDroplet.overlaps", "py-pde CartesianGrid.distance",
             "scipy.spatial.distance.cdist"],
    "stub": ["the observed system: simkit.world (seeded droplet world + camera with faults)"],
}
TIERS = {
    "quick": {"runs": 50000, "budget_s": 50, "chunk": 250, "det_pairs": 64, "fresh": 8},
    "thorough": {"runs": 700000, "budget_s": 900, "chunk_timeout": 900, "chunk": 500, "det_pairs": 512, "fresh": 32},
}


def gen_configs(rng, box, n):
    out = []
    for _ in range(n):
        method = rng.choice(["overlap", "distance"])
        cfg = {"method": method, "grid": rng.random() < 0.6}
        if method == "distance":
            cfg["max_dist"] = rng.choice([None, None, "inf", 0, 0.0, 1.0, 2.5, 6.0, 1000.0, -1])
        cfg["build"] = rng.choice(BUILDS)
        cfg["progress"] = rng.random() < 0.1
        if rng.random() < 0.2:
            # the same time course object is tracked a second time after the caller moved or
            # replaced one of its droplets in place
            cfg["retrack"] = {"frame": rng.randrange(64), "drop": rng.randrange(64),
                              "shift": rng.choice([0.5, 3.0, 30.0, -7.25]),
                              "kind": rng.choice(["move", "replace"])}
        out.append(cfg)
    return out

LATTICE_FRAMES = {"quick": 3, "thorough": 4}


def generate(streams: Streams, tier: str, index: int) -> dict:
    nf = LATTICE_FRAMES[tier]
    if index < world.lattice_size(nf):
        # exhaustive part: every history of the small 1D lattice space, every configuration
        return {"history": world.lattice_history(index, nf), "configs": list(world.LATTICE_CONFIGS)}
    rng = streams["workload"]
    allow_overlap = rng.random() < 0.3
    hist = world.random_history(rng, allow_overlap=allow_overlap,
                                small_motion=(not allow_overlap and rng.random() < 0.2))
    crng = streams["config"]
    if crng.random() < 0.04 and hist["frames"]:
        # integer time stamps that no double can hold exactly (nanosecond epoch counters)
        t0 = crng.choice([2 ** 60, 2 ** 53, 1_790_000_000_000_000_000])
        step = crng.choice([1, 1, 3, 1000])
        hist = {**hist, "frames": [{**f, "t": t0 + 1 + k * step} for k, f in enumerate(hist["frames"])]}
    return {"history": hist, "configs": gen_configs(crng, hist["box"], crng.choice([2, 3, 4]))}


# --------------------------------------------------------------------------- execution


BUILDS = ["ctor", "ctor", "append", "linked", "sliced", "copied", "pickled", "file"]


def build_etc(frames, how: str = "ctor"):
    """The time course handed to the tracker, with one of several pasts (all give the same
    frames and times): constructor, frame-by-frame append, emulsions whose members are views
    into one linked array, a slice of a longer time course, a copy-constructed one, one that
    crossed a process boundary, one that was written to and read back from a file (simulated
    disk; only when every frame holds one droplet class, which is what a file can store)."""
    import droplets as dr

    ems = [dr.Emulsion([scenes.make_droplet(s) for s in f["droplets"]]) for f in frames]
    times = [gen.make_time(f["t"]) for f in frames]
    if how == "append":
        etc = dr.EmulsionTimeCourse()
        for e, t in zip(ems, times):
            etc.append(e, time=t)
        return etc
    if how == "sliced" and frames:
        t0 = times[0] - 1
        extra = dr.Emulsion([scenes.make_droplet(s) for s in frames[-1]["droplets"]])
        return dr.EmulsionTimeCourse([extra] + ems, times=[t0] + times)[1:]
    etc = dr.EmulsionTimeCourse(ems, times=times)
    if how == "linked":
        for e in etc.emulsions:
            try:
                e.get_linked_data()
            except Exception:  # mixed droplet classes cannot be linked
                pass
    elif how == "copied":
        etc = dr.EmulsionTimeCourse(etc)
    elif how == "pickled":
        import pickle

        etc = pickle.loads(pickle.dumps(etc))
    elif how == "file" and all(len({type(d) for d in e}) <= 1 and len({d.data.dtype for d in e}) <= 1
                               for e in etc.emulsions):
        from simkit import simfs

        with simfs.SimFS():
            path = f"{simfs.ROOT}/c06_etc.h5"
            etc.to_file(path)
            back = dr.EmulsionTimeCourse.from_file(path, progress=False)
        # the file is only the vehicle: the frames must be the ones of the history (C08 decides
        # round trips); otherwise keep the constructor-built object
        if [x[1:] for x in etc_fingerprint(back)] == [x[1:] for x in etc_fingerprint(etc)]:
            etc = back
    return etc


def tkey(t) -> str:
    """Exact value of a time stamp, whatever its numeric type (an int beyond 2**53 and the
    float next to it are different times)."""
    import fractions

    import numpy as np

    if isinstance(t, (int, np.integer)) and not isinstance(t, bool):
        return str(fractions.Fraction(int(t)))
    f = float(t)
    return str(fractions.Fraction(f)) if math.isfinite(f) else repr(f)


def etc_fingerprint(etc):
    return [[repr(type(t)), tkey(t), [[type(d).__name__, d.data.tobytes().hex()] for d in e]]
            for t, e in zip(etc.times, etc.emulsions)]


def run_tracking(etc, cfg, box):
    import droplets as dr

    kw = {"method": cfg["method"]}
    if cfg.get("grid"):
        kw["grid"] = scenes.make_grid(box)
    md = cfg.get("max_dist")
    if md is not None:
        kw["max_dist"] = math.inf if md == "inf" else md
    if cfg.get("progress"):
        import contextlib
        import io

        with contextlib.redirect_stderr(io.StringIO()):
            return dr.DropletTrackList.from_emulsion_time_course(etc, progress=True, **kw)
    return dr.DropletTrackList.from_emulsion_time_course(etc, **kw)


def execute(case: dict) -> Outcome:
    log = EventLog()
    cnt = Counter()
    violations: list[Violation] = []
    hist = case["history"]
    frames = hist["frames"]
    box = hist["box"]
    overlap_free = world.frames_overlap_free(frames, box)
    counts = [len(f["droplets"]) for f in frames]
    log.add("history", dim=len(box["bounds"]), counts=counts, cls=hist["cls"],
            cam=hist.get("camera_faults", []), overlap_free=overlap_free)
    for k in hist.get("camera_faults", []):
        cnt.inc(f"fault.{k}")
    for k in set(hist.get("world_events", [])):
        cnt.inc(f"world.{k}", hist["world_events"].count(k))
    if any(c == 0 for c in counts) and len(frames) > 1:
        cnt.inc("probe.history_with_empty_frame")
    if any(a > 0 and b == 0 for a, b in zip(counts, counts[1:])):
        cnt.inc("probe.empty_after_nonempty")
    inter = []
    passes = []
    for cfg in case["configs"]:
        etc = build_etc(frames, cfg.get("build", "ctor"))
        cnt.inc("build." + cfg.get("build", "ctor"))
        passes.append((cfg, etc, overlap_free, counts))
        if cfg.get("retrack") and any(len(e) for e in etc.emulsions):
            passes.append((cfg, etc, None, None))  # second pass on the edited object
    for cfg, etc, overlap_free, counts in passes:
        if overlap_free is None:
            # edit the live time course in place, then track it again
            rt = cfg["retrack"]
            nonempty = [k for k, e in enumerate(etc.emulsions) if len(e)]
            if not nonempty:
                # the first pass emptied the caller's time course (reported there as C06.O4)
                counts = [len(e) for e in etc.emulsions]
                continue
            k = nonempty[rt["frame"] % len(nonempty)]
            em = etc.emulsions[k]
            i = rt["drop"] % len(em)
            pos = np.array(em[i].position, dtype=float)
            pos[0] += rt["shift"]
            if rt["kind"] == "move":
                em[i].position = pos
            else:
                new = em[i].copy()
                new.position = pos
                em[i] = new
            cnt.inc("retrack_passes")
            spec_frames = [{"droplets": [scenes.droplet_spec(d) for d in e]} for e in etc.emulsions]
            overlap_free = world.frames_overlap_free(spec_frames, box)
            counts = [len(e) for e in etc.emulsions]
        fp_before = etc_fingerprint(etc)
        ftimes = [tkey(t) for t in etc.times]
        sig_cfg = {"method": cfg["method"], "grid": str(bool(cfg.get("grid")))}
        try:
            tracks = run_tracking(etc, cfg, box)
        except Exception as exc:
            err = SutError(exc)
            log.add("raised", cfg=cfg, exc=err.text)
            violations.append(Violation(
                "C06.O5", f"from_emulsion_time_course raised {err.text} on a valid history "
                f"(counts per frame {counts}, {cfg})",
                {**sig_cfg, "exc_type": err.exc_type, "frame": err.frame}))
            continue
        cnt.inc("tracking_calls")
        cnt.inc(f"method.{cfg['method']}")
        # O1 conservation / exactly once, with frame time stamps (O2)
        want = collections.Counter()
        for f_t, em in zip(etc.times, etc.emulsions):
            for d in em:
                want[(tkey(f_t), type(d).__name__, d.data.tobytes())] += 1
        got = collections.Counter()
        bad_len = False
        for tr in tracks:
            if len(tr.times) != len(tr.droplets):
                bad_len = True
            for t, d in zip(tr.times, tr.droplets):
                got[(tkey(t), type(d).__name__, d.data.tobytes())] += 1
        log.add("tracks", cfg=cfg, n=len(tracks),
                shape=[[float(t) for t in tr.times] for tr in tracks])
        if bad_len:
            violations.append(Violation("C06.O1", "a track has times and droplets of different "
                                        "length", {**sig_cfg, "kind": "length"}))
        if got != want:
            missing = sum((want - got).values())
            extra = sum((got - want).values())
            kind = "lost" if missing and not extra else "duplicated" if extra and not missing \
                else "altered"
            violations.append(Violation(
                "C06.O1", f"tracks do not partition the droplets of the time course: "
                f"{missing} missing, {extra} unexpected (droplet, frame time) items "
                f"(counts per frame {counts}, {cfg})", {**sig_cfg, "kind": kind}))
        # O3 at most one droplet per frame and gap-free runs (non-overlapping frames only)
        if overlap_free:
            for tr in tracks:
                ts = [tkey(t) for t in tr.times]
                idx = [ftimes.index(t) for t in ts if t in ftimes]
                if len(idx) != len(ts):
                    continue  # already reported by O1
                if len(set(idx)) != len(idx):
                    violations.append(Violation(
                        "C06.O3", f"a track holds two droplets of the same frame: frames {idx}",
                        {**sig_cfg, "kind": "two_per_frame"}))
                elif idx != list(range(idx[0], idx[0] + len(idx))) if idx else False:
                    violations.append(Violation(
                        "C06.O3", f"a track does not cover a gap-free run of frames: {idx}",
                        {**sig_cfg, "kind": "gap"}))
            # O4 input left unmodified
            if etc_fingerprint(etc) != fp_before:
                violations.append(Violation(
                    "C06.O4", "the time course passed in was modified by tracking",
                    {**sig_cfg}))
        else:
            cnt.inc("probe.histories_with_overlap")
            if etc_fingerprint(etc) != fp_before:
                cnt.inc("probe.input_modified_overlapping_history")
        shared = sum(1 for tr in tracks for d in tr.droplets
                     if any(d is x for e in etc.emulsions for x in e))
        if shared:
            cnt.inc("probe.tracks_share_objects_with_input")
        md = cfg.get("max_dist")
        inter.append((cfg["method"], bool(cfg.get("grid")),
                      "default" if md is None else "inf" if md == "inf" else "zero" if md == 0
                      else "finite", tuple(counts), tuple(hist.get("camera_faults", []))))
    nontrivial = len(frames) >= 2 and (
        len(set(counts)) > 1 or any(c == 0 for c in counts) or bool(hist.get("camera_faults"))
        or any(a["ids"] != b["ids"] for a, b in zip(frames, frames[1:])))
    t_span = (float(gen.make_time(frames[-1]["t"])) - float(gen.make_time(frames[0]["t"]))) if frames else 0.0
    return Outcome(digest=log.digest(), violations=violations, counters=cnt,
                   sim_time={"world_time": t_span * len(case["configs"])},
                   nontrivial=nontrivial, events=log.count, log_head=log.head,
                   coverage_keys=[repr(k) for k in inter])


def evidence_extra(records) -> dict:
    inter = set()
    for r in records:
        inter.update(r["coverage_keys"])
    return {"distinct_interleavings": len(inter), "coverage_cells_list": sorted(inter)[:40]}


# --------------------------------------------------------------------------- shrinking


def shrink(case: dict):
    h = case["history"]
    frames = h["frames"]
    if len(case["configs"]) > 1:
        for c in case["configs"]:
            yield {**case, "configs": [c]}
    n = len(frames)
    if n > 1:
        yield {**case, "history": {**h, "frames": frames[: n // 2]}}
        yield {**case, "history": {**h, "frames": frames[n // 2:]}}
    for i in range(n):
        yield {**case, "history": {**h, "frames": frames[:i] + frames[i + 1:]}}
    for i, f in enumerate(frames):
        for j in range(len(f["droplets"])):
            nf = {**f, "droplets": f["droplets"][:j] + f["droplets"][j + 1:],
                  "ids": f["ids"][:j] + f["ids"][j + 1:]}
            yield {**case, "history": {**h, "frames": frames[:i] + [nf] + frames[i + 1:]}}
    # plain times
    if [f["t"] for f in frames] != list(range(n)):
        yield {**case, "history": {**h, "frames": [{**f, "t": i} for i, f in enumerate(frames)]}}
    for ci, c in enumerate(case["configs"]):
        if c.get("grid"):
            yield {**case, "configs": case["configs"][:ci] + [{**c, "grid": False}] + case["configs"][ci + 1:]}
        if c.get("max_dist") is not None:
            yield {**case, "configs": case["configs"][:ci] + [{k: v for k, v in c.items() if k != "max_dist"}] + case["configs"][ci + 1:]}
        if c.get("retrack"):
            yield {**case, "configs": case["configs"][:ci] + [{k: v for k, v in c.items() if k != "retrack"}] + case["configs"][ci + 1:]}
        if c.get("build", "ctor") != "ctor" or c.get("progress"):
            yield {**case, "configs": case["configs"][:ci] + [{**c, "build": "ctor", "progress": False}] + case["configs"][ci + 1:]}
    if h["cls"] != "SphericalDroplet":
        def simp(s):
            return {"cls": "SphericalDroplet", "position": s["position"], "radius": s["radius"]}
        yield {**case, "history": {**h, "cls": "SphericalDroplet", "frames": [
            {**f, "droplets": [simp(s) for s in f["droplets"]]} for f in frames]}}


def describe(case: dict) -> dict:
    h = case["history"]
    return {"box": h["box"], "cls": h["cls"], "counts": [len(f["droplets"]) for f in h["frames"]],
            "times": [f["t"] for f in h["frames"]], "ids": [f["ids"] for f in h["frames"]],
            "camera_faults": h.get("camera_faults"), "world_events": h.get("world_events", [])[:20],
            "configs": case["configs"], "first_frame": h["frames"][0]["droplets"][:3] if h["frames"] else []}
