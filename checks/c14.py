"""C14 — tracking during a simulation equals analysing the stored fields afterwards;
the length-scale tracker records exactly what the analysis returns and never raises.

System: the real py-pde Controller advancing a state with a tracker collection that
contains the real DropletTracker and/or LengthScaleTracker plus harness trackers, on a
virtual wall clock and the simulated disk.  Drive modes: (A) real PDE solve, (B) real
Controller with a scripted stepper playing rendered frames, (C) direct drive
initialize -> handle* -> finalize.
"""

from __future__ import annotations

import copy
import math
import random

import numpy as np

from simkit import clock as vclock
from simkit import gen, scenes, simfs
from simkit.core import Counter, EventLog, Outcome, Streams, SutError, Violation, data_hash

PROPERTY = "C14"
LEVEL = "exploration"
RULE = (
    "Each run = one simulated experiment: a tracker collection (DropletTracker and/or "
    "LengthScaleTracker with a seeded option swarm: threshold rule, minimal radius, refine, "
    "refine_args, modes, source selection, pre-filled time course, file output) driven in "
    "mode A (real Cahn-Hilliard/Allen-Cahn solve), B (real Controller + scripted stepper "
    "playing rendered frames incl. constant/binary/noise/empty ones; constant, fixed, "
    "geometric, logarithmic and REAL-TIME interrupts on a virtual wall clock with jitter, "
    "stalls and jumps; end modes: t_end, FinishedSimulation/StopIteration from a co-tracker, "
    "KeyboardInterrupt or exception from the stepper) or C (direct initialize/handle*/"
    "finalize), with injected analysis failures in get_length_scale and disk faults during "
    "finalize. A run is non-trivial when at least two frames reached a tracker and at least "
    "one fault / non-default end mode / non-constant interrupt schedule occurred; distinct "
    "= distinct run digests."
)
INTERLEAVING_MEASURE = "distinct (mode, tracker kinds, interrupt kinds, handle-time sequence, end mode, fault positions) tuples"
ASSUMPTIONS = [
    "'the same stored fields' = the bytes that reached tracker.handle (copied by a tap)",
    "offline analysis uses the library's own locate_droplets / get_length_scale, so errors "
    "common to both paths are invisible here (they belong to C01-C05/C16-C18)",
    "KeyboardInterrupt is injected into the stepper only, never into tracker.handle",
]
REAL_VS_STUB = {
    "real": ["droplets.trackers.DropletTracker / LengthScaleTracker", "EmulsionTimeCourse."
             "from_storage / to_file / from_file", "py-pde Controller, TrackerCollection, "
             "interrupt classes, MemoryStorage, extract_field", "HDF5/h5py",
             "mode A: py-pde CahnHilliardPDE / AllenCahnPDE explicit solver (numpy backend)"],
    "stub": ["modes B/C: scripted stepper playing rendered frames", "wall clock -> "
             "simkit.clock.VirtualClock", "disk -> simkit.simfs", "get_length_scale wrapped "
             "by a spy that can raise"],
}
TIERS = {
    "quick": {"runs": 3200, "budget_s": 60, "chunk": 16, "det_pairs": 48, "fresh": 4},
    "thorough": {"runs": 40000, "budget_s": 900, "chunk_timeout": 900, "chunk": 24, "det_pairs": 384, "fresh": 24},
}

EXCS = {"ValueError": ValueError, "ZeroDivisionError": ZeroDivisionError,
        "FloatingPointError": FloatingPointError, "LinAlgError": np.linalg.LinAlgError,
        "MemoryError": MemoryError, "NotImplementedError": NotImplementedError,
        "RuntimeError": RuntimeError, "KeyError": KeyError, "TypeError": TypeError,
        "IndexError": IndexError, "OverflowError": OverflowError,
        "AssertionError": AssertionError, "OSError": OSError}


def isolate(case: dict) -> bool:
    """Runs with an injected disk fault execute in a forked child (see runner._run_case_forked)."""
    return bool(case.get("disk_fault"))


class InjectedStepperError(Exception):
    pass


class InjectedAnalysisError:
    pass


def _src_identity(f):
    return f


def _src_second(fc):
    return fc[1]


def _src_first(fc):
    return fc[0]


def _src_invert(f):
    return 1 - f


SOURCES = {"identity": _src_identity, "second": _src_second, "first": _src_first,
           "invert": _src_invert}


# --------------------------------------------------------------------------- generation


def _gen_grid(rng):
    r = rng.random()
    if r < 0.6:
        return scenes.random_cart_grid(rng, dim=2, max_cells=576, min_n=10)
    if r < 0.72:
        return scenes.random_cart_grid(rng, dim=1, min_n=16)
    if r < 0.82:
        return scenes.random_cart_grid(rng, dim=3, max_cells=1000, min_n=7)
    if r < 0.92:
        return scenes.random_cyl_grid(rng, max_cells=300)
    return scenes.random_sym_grid(rng)


def _gen_frame(rng, grid):
    kind = rng.choice(["scene"] * 8 + ["constant", "binary", "noise", "empty"])
    if kind == "constant":
        return {"grid": grid, "kind": "constant", "value": rng.choice([0.0, 1.0, 0.5, -2.0])}
    frame = {"grid": grid, "droplets": []}
    if kind != "empty" and kind != "noise":
        if grid["kind"] == "cart":
            dim = len(grid["shape"])
            frame["droplets"] = scenes.random_separated_droplets(
                rng, grid, rng.choice([1, 1, 2, 3, 4]), rmin=1.5,
                rmax={1: 4.0, 2: 4.0, 3: 2.5}[dim], gap=1.25)
        elif grid["kind"] == "cyl":
            z0, z1 = grid["bounds_z"]
            r = scenes.q(rng.uniform(1.5, max(1.5, min(3.0, grid["radius"] - 1, (z1 - z0) / 2 - 1.5))))
            z = scenes.q(rng.uniform(z0 + r + 1, max(z0 + r + 1, z1 - r - 1)))
            frame["droplets"] = [{"cls": "DiffuseDroplet", "position": [0.0, 0.0, z], "radius": r,
                                  "interface_width": 1.0}]
        else:
            d = scenes.grid_dim(grid)
            r = scenes.q(rng.uniform(2.0, max(2.0, grid["radius"] * 0.6)))
            frame["droplets"] = [{"cls": "DiffuseDroplet", "position": [0.0] * d, "radius": r,
                                  "interface_width": 1.0}]
    if kind == "binary":
        frame["kind"] = "binary"
    if kind == "noise" or rng.random() < 0.2:
        frame["noise"] = {"seed": rng.randrange(1 << 30),
                          "amp": rng.choice([0.02, 0.1, 0.5 if kind == "noise" else 0.05])}
    if rng.random() < 0.1:
        frame["affine"] = [rng.choice([0.0, -1.0, 0.2]), rng.choice([2.0, 0.5, 1.0])]
    return frame


def _gen_interrupts(rng, t0, t1, dt, allow_realtime=True):
    kinds = ["const", "const", "fixed", "geometric", "log"] + (["realtime"] * 2 if allow_realtime else [])
    k = rng.choice(kinds)
    span = t1 - t0
    if k == "const":
        return {"kind": "const", "dt": rng.choice([dt, 2 * dt, 3 * dt, span / 4, span, 2.5 * dt])}
    if k == "fixed":
        n = rng.randint(0, 6)
        ts = sorted({scenes.q(rng.uniform(t0 - 0.5, t1 + 0.5)) for _ in range(n)})
        if rng.random() < 0.3:
            ts.append(t1)
        return {"kind": "fixed", "times": sorted(set(ts))}
    if k == "geometric":
        return {"kind": "geometric", "scale": rng.choice([dt, 2 * dt, 0.5]), "factor": rng.choice([1.5, 2, 3])}
    if k == "log":
        return {"kind": "log", "dt": rng.choice([dt, 2 * dt]), "factor": rng.choice([1.5, 2])}
    return {"kind": "realtime", "duration": rng.choice([0.5, 1.0, 5.0]),
            "dt_initial": rng.choice([dt, 2 * dt, 4 * dt])}


def _gen_droplet_tracker(rng, grid, collection):
    dim = scenes.grid_dim(grid)
    o = {"type": "droplet",
         "threshold": rng.choice([0.5, 0.5, 0.5, 0.4, 0.7, "auto", "extrema", "mean", "otsu"]),
         "minimal_radius": rng.choice([0, 0, 0, 0.75, 1.5, 2.5]),
         "refine": rng.random() < 0.3, "refine_args": None, "perturbation_modes": 0,
         "filename": rng.random() < 0.55, "prefill": 0, "defaults": rng.random() < 0.1}
    if o["refine"]:
        o["refine_args"] = copy.deepcopy(rng.choice(
            [None, {}, {"vmin": None, "vmax": None}, {"tolerance": 1e-2},
             {"least_squares_params": {"max_nfev": 10}}, {"adjust_values": True}]))
        if dim == 2 and grid["kind"] == "cart" and rng.random() < 0.3:
            o["perturbation_modes"] = rng.choice([1, 2])
            o["refine_args"] = dict(o["refine_args"] or {})
            o["refine_args"].setdefault("least_squares_params", {"max_nfev": 10})
    else:
        # options documented as "only has an effect if refine=True" must still be forwarded:
        # modes > 0 changes the droplet class even without refinement
        if rng.random() < 0.15:
            o["refine_args"] = {"tolerance": 1e-2}
        if dim in (2, 3) and rng.random() < 0.3:
            o["perturbation_modes"] = rng.choice([1, 2, 3])
    if rng.random() < 0.2:
        o["prefill"] = rng.randint(1, 3)
    # how the stored fields are analysed afterwards: from memory, from a file storage written
    # to and read back from the (simulated) disk, by worker processes (simulated pool, later
    # frames finishing first), or with the progress display on / left to its default
    o["offline"] = rng.choice(["memory", "memory", "file", "parallel", "parallel_progress",
                               "progress", "progress_default"])
    # the tracker's file may exist already, holding the (longer) result of an earlier run
    o["stale_file"] = rng.choice([0, 0, 0, 5, 14])
    if collection:
        o["source"] = rng.choice([1, 0, "second", "first"])
    else:
        o["source"] = rng.choice([None, None, None, "identity", "invert"])
    return o


def _gen_length_tracker(rng, collection, n_handles_hint):
    o = {"type": "length",
         "method": rng.choice(["structure_factor_mean", "structure_factor_maximum",
                               "droplet_detection"]),
         "filename": rng.random() < 0.3, "verbose": rng.random() < 0.3}
    if collection:
        o["source"] = rng.choice([1, 0, "second"])
    else:
        o["source"] = rng.choice([None, None, "identity", "invert"])
    o["fail_at"] = sorted({rng.randrange(max(1, n_handles_hint + 1))
                           for _ in range(rng.choice([0, 0, 1, 2, 3]))})
    o["fail_exc"] = rng.choice(list(EXCS))
    return o


def generate(streams: Streams, tier: str, index: int) -> dict:
    rng = streams["workload"]
    frng = streams["faults"]
    crng = streams["config"]
    r = rng.random()
    mode = "A" if r < (0.03 if tier == "quick" else 0.06) else ("B" if r < 0.6 else "C")
    collection = rng.random() < 0.2 and mode != "A"
    if mode == "A":
        n = rng.choice([12, 16])
        grid = {"kind": "cart", "bounds": [[0, n], [0, n]], "shape": [n, n],
                "periodic": [True, rng.random() < 0.7]}
        frames = []
    else:
        grid = _gen_grid(rng)
        frames = [_gen_frame(rng, grid) for _ in range(rng.choice([1, 2, 3, 4, 5, 6, 8]))]
    t0 = rng.choice([0, 0, 0, 2.5, -1.0, -2.0, 1e6])
    dt = rng.choice([0.5, 1.0, 0.25]) if mode != "A" else 0.01
    n_steps = rng.randint(1, 24) if mode != "A" else rng.choice([60, 120, 200])
    t1 = t0 + n_steps * dt
    trackers = []
    want_d = rng.random() < 0.8
    want_l = rng.random() < 0.6 or not want_d
    if want_d:
        d = _gen_droplet_tracker(crng, grid, collection)
        d["interrupts"] = _gen_interrupts(crng, t0, t1, dt)
        trackers.append(d)
    if want_l:
        tl = _gen_length_tracker(crng, collection, 6)
        tl["interrupts"] = _gen_interrupts(crng, t0, t1, dt)
        trackers.append(tl)
    if mode == "A":
        for t in trackers:
            t["source"] = None
            if t["type"] == "droplet":
                t["threshold"] = crng.choice([0.0, "auto", "mean", "otsu"])
                t["perturbation_modes"] = 0
                if t["refine"]:
                    t["refine_args"] = {"least_squares_params": {"max_nfev": 8}}
    end = frng.choice(["t_end"] * 5 + ["finished", "stopiteration", "keyboard", "exception"])
    case = {"mode": mode, "grid": grid, "frames": frames, "collection": collection,
            "t_range": [t0, t1], "dt": dt, "trackers": trackers,
            "end": {"kind": end, "at": frng.randint(0, max(1, n_steps))},
            "clock": {"costs": [frng.choice([0.01, 0.05, 0.2, 0.0, 0.0, 1.0, 30.0])
                                for _ in range(frng.randint(1, 6))]},
            "disk_fault": None,
            "pde": {"kind": rng.choice(["cahn_hilliard", "allen_cahn"]),
                    "seed": rng.randrange(1 << 30)}}
    if mode == "B" and end == "t_end" and frng.random() < 0.2:
        span = min(t1 - t0, 6 * dt)
        start2 = frng.choice([t0, t1, 0, t1 + 3 * dt])
        case["second_run"] = [start2, start2 + span]
    if mode != "A" and streams["config"].random() < 0.15:
        case["field_dtype"] = "float32"
    if frng.random() < 0.25:
        case["disk_fault"] = {"kind": frng.choice(["enospc", "eio", "enospc_torn", "truncate_eio"]),
                              "k": frng.randint(1, 12)}
    if mode == "C":
        # explicit handle schedule: (time, frame index)
        n = rng.choice([0, 1, 2, 3, 4, 6, 9, 12, 20, 40] if tier == "thorough" else [0, 1, 2, 3, 4, 6, 9, 12])
        t, sched = t0, []
        for _ in range(n):
            sched.append([t, rng.randrange(len(frames))])
            # times need not be increasing for a directly driven tracker: repeat one sometimes
            t = t + rng.choice([dt, dt, dt, 2 * dt, 0.0625, 7.5, 0])
        case["schedule"] = sched
        case["end"] = {"kind": frng.choice(["finalize"] * 4 + ["abort"]), "at": 0}
    return case


# --------------------------------------------------------------------------- harness parts


def make_interrupts(spec):
    from pde.trackers import interrupts as I

    k = spec["kind"]
    if k == "const":
        return I.ConstantInterrupts(spec["dt"])
    if k == "fixed":
        return I.FixedInterrupts(list(spec["times"]))
    if k == "geometric":
        return I.GeometricInterrupts(spec["scale"], spec["factor"])
    if k == "log":
        return I.LogarithmicInterrupts(spec["dt"], spec["factor"])
    return I.RealtimeInterrupts(spec["duration"], spec["dt_initial"])


def resolve_source(s):
    return SOURCES[s] if isinstance(s, str) else s


def _solver_info(dt) -> dict:
    """Diagnostic information as real py-pde solvers report it (adaptive solvers store a
    statistics object, counters are numpy integers): trackers receive it in finalize."""
    from pde.tools.math import OnlineStatistics

    stats = OnlineStatistics()
    stats.add(float(dt))
    return {"class": "ScriptedSolver", "dt": dt, "dt_adaptive": True, "steps": np.int64(3),
            "dt_statistics": stats, "state_modifications": np.float64(0.0),
            "backend": {"name": "numpy", "device": None}}


class ScriptedSolver:
    """Duck-typed py-pde solver whose stepper plays pre-rendered frames."""

    mpi_run = False

    def __init__(self, frames_data, dt, clock, costs, end, collection, log, cnt):
        self.frames_data, self.dt, self.clock, self.costs = frames_data, dt, clock, costs
        self.end, self.collection, self.log, self.cnt = end, collection, log, cnt
        self.info = _solver_info(dt)
        self.steps = 0

    def make_stepper(self, state, dt=None):
        def stepper(state, t_start, t_end):
            t = t_start
            while t < t_end - 1e-9 * self.dt:
                if self.end["kind"] == "keyboard" and self.steps == self.end["at"]:
                    self.cnt.inc("fault.keyboard_interrupt")
                    self.log.add("inject", what="KeyboardInterrupt", step=self.steps)
                    self.steps += 1
                    raise KeyboardInterrupt
                if self.end["kind"] == "exception" and self.steps == self.end["at"]:
                    self.cnt.inc("fault.stepper_exception")
                    self.log.add("inject", what="stepper exception", step=self.steps)
                    self.steps += 1
                    raise InjectedStepperError("injected")
                self.steps += 1
                data = self.frames_data[self.steps % len(self.frames_data)]
                if self.collection:
                    state[1].data[...] = data
                    state[0].data[...] = self.frames_data[(self.steps + 1) % len(self.frames_data)]
                else:
                    state.data[...] = data
                cost = self.costs[self.steps % len(self.costs)]
                if cost == 0:
                    self.cnt.inc("fault.clock_stall")
                elif cost >= 10:
                    self.cnt.inc("fault.clock_jump")
                self.clock.advance(cost)
                t += self.dt
            return t

        return stepper


def _make_stopper(kind, at, log, cnt):
    from pde.trackers.base import FinishedSimulation, TrackerBase

    class Stopper(TrackerBase):
        def __init__(self):
            super().__init__(interrupts=1)
            self.calls = 0

        def handle(self, field, t):
            if self.calls == at:
                cnt.inc(f"fault.cotracker_{kind}")
                log.add("inject", what=kind, t=float(t))
                self.calls += 1
                if kind == "finished":
                    raise FinishedSimulation("harness")
                raise StopIteration("harness")
            self.calls += 1

    return Stopper()


class Spy:
    """Wraps the real get_length_scale; raises injected errors at chosen call indices."""

    def __init__(self, real, fail_at, exc_name, cnt, log):
        self.real, self.fail_at, self.exc, self.cnt, self.log = real, set(fail_at), EXCS[exc_name], cnt, log
        self.calls = 0
        self.records: list[tuple] = []
        self.enabled_for = None  # only calls made while a length tracker handles count

    def __call__(self, scalar_field, *args, **kwargs):
        if self.enabled_for is None:
            return self.real(scalar_field, *args, **kwargs)
        i = self.calls
        self.calls += 1
        if i in self.fail_at:
            self.cnt.inc("fault.analysis_failure")
            self.cnt.inc(f"probe.injected_{self.exc.__name__}")
            self.records.append(("injected", i, kwargs.get("method", args[0] if args else None)))
            raise self.exc("injected analysis failure")
        try:
            val = self.real(scalar_field, *args, **kwargs)
        except Exception as exc:
            self.cnt.inc("fault.natural_analysis_failure")
            self.records.append(("raised", i, type(exc).__name__))
            raise
        self.records.append(("value", i, val, kwargs.get("method", args[0] if args else None)))
        return val


def same_float_bits(a, b) -> bool:
    try:
        fa, fb = float(a), float(b)
    except Exception:
        return False
    if math.isnan(fa) and math.isnan(fb):
        return True
    return np.float64(fa).tobytes() == np.float64(fb).tobytes()


# --------------------------------------------------------------------------- execution


def execute(case: dict) -> Outcome:
    import droplets
    import droplets.image_analysis as ia
    from pde import FieldCollection, MemoryStorage, ScalarField
    from pde.visualization.plotting import extract_field

    log = EventLog()
    cnt = Counter()
    V: list[Violation] = []
    mode = case["mode"]
    grid_spec = case["grid"]
    cnt.inc(f"mode.{mode}")
    log.add("case", mode=mode, grid=grid_spec, trackers=[
        {k: v for k, v in t.items()} for t in case["trackers"]], end=case["end"])

    clock = vclock.VirtualClock()
    fs = simfs.SimFS(log=log, counters=cnt)
    real_gls = ia.get_length_scale
    taps: dict[int, list] = {}
    objs = []  # (spec, tracker)
    spy = None
    handle_seq: list = []
    aborted = {"by": None}

    # ---- build trackers
    def build_tracker(ti, spec):
        ints = make_interrupts(spec["interrupts"]) if mode != "C" else 1
        if spec["type"] == "droplet":
            kw = {}
            if not spec.get("defaults"):
                kw = dict(threshold=spec["threshold"], minimal_radius=spec["minimal_radius"],
                          refine=spec["refine"], refine_args=copy.deepcopy(spec["refine_args"]),
                          perturbation_modes=spec["perturbation_modes"])
            pre = None
            if spec.get("prefill"):
                r = random.Random(1234 + spec["prefill"])
                pre_spec = gen.random_collection(r, "etc", hetero_rate=0.0)
                while len(pre_spec["frames"]) < spec["prefill"]:
                    pre_spec = gen.random_collection(r, "etc", hetero_rate=0.0)
                pre_spec["frames"] = pre_spec["frames"][: spec["prefill"]]
                pre_spec["times"] = [-100 + i for i in range(spec["prefill"])]
                pre = gen.build(pre_spec)
            if spec.get("defaults") and spec.get("source") is None:
                # the convenience constructor of the time course itself
                pre = pre if pre is not None else droplets.EmulsionTimeCourse()
                tr = pre.tracker(ints, filename=f"{simfs.ROOT}/droplets_{ti}.h5" if spec["filename"] else None)
                cnt.inc("probe.tracker_via_timecourse")
            else:
                tr = droplets.DropletTracker(
                    ints, filename=f"{simfs.ROOT}/droplets_{ti}.h5" if spec["filename"] else None,
                    emulsion_timecourse=pre, source=resolve_source(spec.get("source")), **kw)
            if spec.get("stale_file") and spec["filename"]:
                # an older, longer time course already sits at the tracker's path
                r2 = random.Random(4321 + spec["stale_file"])
                old_spec = gen.random_collection(r2, "etc", hetero_rate=0.0)
                while not old_spec["frames"]:
                    old_spec = gen.random_collection(r2, "etc", hetero_rate=0.0)
                k = spec["stale_file"]
                old_spec["frames"] = (old_spec["frames"] * k)[:k]
                old_spec["times"] = [float(i) for i in range(k)]
                try:
                    gen.build(old_spec).to_file(f"{simfs.ROOT}/droplets_{ti}.h5")
                    cnt.inc("probe.stale_file_present")
                except Exception:
                    pass
            tr._verif_prefill_fp = gen.fingerprint(pre) if pre is not None else None
            tr._verif_prefill_n = spec.get("prefill", 0)
        else:
            tr = droplets.LengthScaleTracker(
                ints, filename=f"{simfs.ROOT}/length_{ti}.json" if spec["filename"] else None,
                method=spec["method"], source=resolve_source(spec.get("source")),
                verbose=spec.get("verbose", False))
        return tr

    def settings_of(spec):
        if spec.get("defaults"):
            return dict(threshold=0.5, minimal_radius=0, refine=False, refine_args=None, modes=0)
        return dict(threshold=spec["threshold"], minimal_radius=spec["minimal_radius"],
                    refine=spec["refine"], refine_args=copy.deepcopy(spec["refine_args"]),
                    modes=spec["perturbation_modes"])

    def install_tap(ti, spec, tr):
        orig = tr.handle
        taps[ti] = []

        def tapped(field, t):
            snap = field.copy()
            state_hash = data_hash(field.data)
            scalar = None
            try:
                scalar = extract_field(snap, resolve_source(spec.get("source")), 0)
            except Exception:
                pass
            handle_seq.append((ti, float(t)))
            if spec["type"] == "droplet":
                n_before = len(tr.data.times)
                try:
                    orig(field, t)
                except Exception as exc:
                    err = SutError(exc)
                    cnt.inc("probe.droplet_handle_raised")
                    log.add("droplet_handle_raised", t=float(t), exc=err.text)
                    aborted["by"] = "droplet_handle"
                    raise
                taps[ti].append((t, scalar))
                _check_droplet_step(spec, tr, n_before, t, scalar)
            else:
                spy.enabled_for = ti
                n_before = len(tr.times)
                rec_before = len(spy.records)
                try:
                    orig(field, t)
                except Exception as exc:
                    err = SutError(exc)
                    spy.enabled_for = None
                    V.append(Violation(
                        "C14.O4", f"LengthScaleTracker.handle raised {err.text}",
                        {"tracker": "length", "kind": "raised", "exc_type": err.exc_type}))
                    log.add("length_handle_raised", exc=err.text)
                    raise
                spy.enabled_for = None
                taps[ti].append((t, scalar))
                _check_length_step(spec, tr, n_before, t, scalar, spy.records[rec_before:])
            if data_hash(field.data) != state_hash:
                cnt.inc("probe.handle_modified_state")

        tr.handle = tapped

    def _check_droplet_step(spec, tr, n_before, t, scalar):
        data = tr.data
        sig = {"tracker": "droplet"}
        if len(data.times) != len(data.emulsions):
            V.append(Violation("C14.O1", f"times ({len(data.times)}) and emulsions "
                               f"({len(data.emulsions)}) have different length after handle",
                               {**sig, "kind": "alignment"}))
            return
        if len(data.times) != n_before + 1:
            V.append(Violation("C14.O1", f"handle recorded {len(data.times) - n_before} frames "
                               "instead of one", {**sig, "kind": "count"}))
            return
        if not same_float_bits(data.times[-1], t):
            V.append(Violation("C14.O1", f"recorded time {data.times[-1]!r} differs from the "
                               f"time {t!r} passed to handle", {**sig, "kind": "time"}))
        try:
            want = ia.locate_droplets(scalar.copy(), **settings_of(spec))
        except Exception:
            cnt.inc("probe.offline_raised")
            return
        log.add("frame", t=float(t), fp=scenes.emulsion_fingerprint(data.emulsions[-1]))
        cnt.inc("frames_compared_online")
        if not scenes.emulsion_equal_bits(want, data.emulsions[-1]):
            V.append(Violation(
                "C14.O1", f"emulsion recorded at t={float(t)} differs from offline analysis of "
                f"the same field with the same settings ({len(data.emulsions[-1])} vs "
                f"{len(want)} droplets)", {**sig, "kind": "frame_differs"}))

    def _check_length_step(spec, tr, n_before, t, scalar, recs):
        sig = {"tracker": "length"}
        if len(tr.times) != len(tr.length_scales) or len(tr.times) != n_before + 1:
            V.append(Violation("C14.O4", f"after handle: {len(tr.times)} times, "
                               f"{len(tr.length_scales)} length scales, expected {n_before + 1}",
                               {**sig, "kind": "alignment"}))
            return
        if not same_float_bits(tr.times[-1], t):
            V.append(Violation("C14.O4", f"recorded time {tr.times[-1]!r} != {t!r}",
                               {**sig, "kind": "time"}))
        got = tr.length_scales[-1]
        log.add("length", t=float(t), v=float(got) if _is_number(got) else repr(got),
                recs=[r[0] for r in recs])
        cnt.inc("length_frames_compared")
        if len(recs) == 1 and recs[0][0] == "value":
            if recs[0][3] is not None and recs[0][3] != spec["method"]:
                V.append(Violation("C14.O4", f"length-scale analysis called with method "
                                   f"{recs[0][3]!r}, tracker configured with {spec['method']!r}",
                                   {**sig, "kind": "method"}))
            if not same_float_bits(got, recs[0][2]):
                V.append(Violation("C14.O4", f"recorded length scale {got!r} is not the value "
                                   f"{recs[0][2]!r} returned by the analysis",
                                   {**sig, "kind": "value"}))
        elif len(recs) == 1:
            cnt.inc("probe.nan_recorded_after_failure")
            if not (_is_number(got) and math.isnan(float(got))):
                V.append(Violation("C14.O4", f"analysis failed ({recs[0][0]}) but the tracker "
                                   f"recorded {got!r} instead of NaN", {**sig, "kind": "nan"}))
            if recs[0][0] == "raised" and scalar is not None:
                # a failure that was not injected must be the analysis' own: the same frame
                # analysed outside the tracker has to fail as well
                try:
                    want = real_gls(scalar.copy(), method=spec["method"])
                except Exception:
                    cnt.inc("probe.natural_failure_confirmed_offline")
                else:
                    if same_float_bits(got, want):
                        cnt.inc("probe.failed_in_tracker_but_same_value")  # not observable
                    else:
                        V.append(Violation(
                            "C14.O4", f"the analysis returns {want!r} for this frame, but inside "
                            f"the tracker it raised {recs[0][2]} and NaN was recorded",
                            {**sig, "kind": "fails_only_in_tracker"}))
            return
        else:
            cnt.inc("probe.length_analysis_calls_not_one")
        # independent offline value on the tapped frame
        try:
            want = real_gls(scalar.copy(), method=spec["method"])
        except Exception:
            if not (_is_number(got) and math.isnan(float(got))):
                V.append(Violation("C14.O4", f"offline analysis fails for this frame but the "
                                   f"tracker recorded {got!r} instead of NaN",
                                   {**sig, "kind": "nan_offline"}))
            return
        if not same_float_bits(got, want):
            V.append(Violation("C14.O4", f"recorded length scale {got!r} differs from the "
                               f"offline value {want!r} for the same frame",
                               {**sig, "kind": "value_offline"}))

    # ---- run
    frames_data = [scenes.render(f).data for f in case["frames"]] if mode != "A" else []
    if case.get("field_dtype"):
        # a simulation state in reduced precision: the frames the trackers see (and that are
        # analysed offline afterwards) are single-precision fields
        frames_data = [d.astype(np.dtype(case["field_dtype"])) for d in frames_data]
        cnt.inc("probe.reduced_precision_state")
    grid = scenes.make_grid(grid_spec)
    finalized = False
    run_exc = None
    with fs, vclock.installed(clock):
        for ti, spec in enumerate(case["trackers"]):
            tr = build_tracker(ti, spec)
            objs.append((spec, tr))
        lspecs = [s for s in case["trackers"] if s["type"] == "length"]
        spy = Spy(real_gls, lspecs[0]["fail_at"] if lspecs else [],
                  lspecs[0]["fail_exc"] if lspecs else "ValueError", cnt, log)
        ia.get_length_scale = spy
        # modules that bound the function at import time (e.g. `from .image_analysis import
        # get_length_scale` at the top of droplets/trackers.py) get the spy as well
        import sys
        rebound = []
        for mname, m in list(sys.modules.items()):
            if mname.startswith("droplets") and m is not ia and getattr(m, "get_length_scale", None) is real_gls \
                    and mname != "droplets":
                m.get_length_scale = spy
                rebound.append(m)
        try:
            for ti, (spec, tr) in enumerate(objs):
                install_tap(ti, spec, tr)
            if mode == "C":
                finalized = _drive_direct(case, objs, frames_data, grid, fs, log, cnt, aborted)
            else:
                finalized, run_exc = _drive_controller(case, objs, frames_data, grid, clock, fs,
                                                       log, cnt, aborted)
        except Exception as exc:  # exception from a tracker's handle in direct mode
            run_exc = exc
        finally:
            ia.get_length_scale = real_gls
            for m in rebound:
                m.get_length_scale = real_gls

        # ---- history oracles
        for ti, (spec, tr) in enumerate(objs):
            tapped = taps[ti]
            if spec["type"] == "droplet":
                _check_droplet_history(spec, tr, tapped, finalized, fs, V, cnt, log, MemoryStorage)
            else:
                if [same_float_bits(a, b[0]) for a, b in zip(tr.times, tapped)] != [True] * len(tapped) \
                        or len(tr.times) != len(tapped):
                    V.append(Violation("C14.O4", "length-scale tracker times differ from the "
                                       "times of the frames it was given",
                                       {"tracker": "length", "kind": "times_history"}))
                if finalized and spec["filename"]:
                    _probe_json(fs, f"{simfs.ROOT}/length_{ti}.json", tr, cnt)
    if run_exc is not None and aborted["by"] is None and not isinstance(run_exc, InjectedStepperError):
        if not any(v.oracle == "C14.O4" and v.signature.get("kind") == "raised" for v in V):
            # an exception we did not inject escaped the run: classify by origin
            err = SutError(run_exc)
            if fs.counters.get("fault.enospc", 0) + fs.counters.get("fault.eio", 0) + \
                    fs.counters.get("fault.enospc_torn", 0) + fs.counters.get("fault.truncate_eio", 0):
                cnt.inc("probe.finalize_raised_under_disk_fault")
            else:
                cnt.inc("probe.run_raised_other")
                log.add("run_raised", exc=err.text)
                if err.frame.startswith("trackers.py:finalize") or any(
                        "finalize" in fs_.name and "/droplets/" in fs_.filename.replace("\\", "/")
                        for fs_ in __import__("traceback").extract_tb(run_exc.__traceback__)):
                    aborted.setdefault("finalize_errors", []).append(("run", err))
    for what, err in aborted.get("finalize_errors", []):
        # no disk fault was injected: the file must be written (droplet tracker) and the
        # length-scale tracker must not raise
        V.append(Violation(
            "C14.O3" if what != "length" else "C14.O4",
            f"finalize raised {err.text} although no disk fault was injected: the recorded data "
            f"was not written", {"tracker": what, "kind": "finalize_raised",
                                 "exc_type": err.exc_type, "frame": err.frame}))
        break
    n_frames = sum(len(v) for v in taps.values())
    kinds = tuple(sorted(t["type"] for t in case["trackers"]))
    ikinds = tuple(t["interrupts"]["kind"] for t in case["trackers"]) if mode != "C" else ("direct",)
    faulty = any(k.startswith("fault.") for k in cnt)
    nontrivial = n_frames >= 2 and (faulty or case["end"]["kind"] not in ("t_end", "finalize")
                                    or any(k != "const" for k in ikinds))
    inter = (mode, kinds, ikinds, tuple(handle_seq), case["end"]["kind"],
             tuple(sorted(k for k in cnt if k.startswith("fault."))))
    t0, t1 = case["t_range"]
    sim_t = (handle_seq[-1][1] - handle_seq[0][1]) if handle_seq else 0.0
    return Outcome(digest=log.digest(), violations=V, counters=cnt,
                   sim_time={"solver_time": max(sim_t, 0.0), "virtual_wall_seconds": clock.now - 1000.0},
                   interleaving=data_hash(np.frombuffer(repr(inter).encode(), dtype=np.uint8)),
                   nontrivial=nontrivial, events=log.count, log_head=log.head,
                   coverage_keys=[repr((mode, kinds, ikinds, case["end"]["kind"],
                                        tuple(sorted(k for k in cnt if k.startswith("fault.")))))])


def _is_number(x) -> bool:
    try:
        float(x)
        return True
    except Exception:
        return False


def _make_state(case, grid, data0):
    from pde import FieldCollection, ScalarField

    dt = np.dtype(case.get("field_dtype") or data0.dtype)
    if case["collection"]:
        return FieldCollection([ScalarField(grid, data0.astype(dt), dtype=dt),
                                ScalarField(grid, data0.astype(dt), dtype=dt)])
    return ScalarField(grid, data0.astype(dt), dtype=dt)


def _arm_disk(case, fs):
    df = case.get("disk_fault")
    if df:
        fs.arm(simfs.FaultPlan(df["kind"], df["k"]))


def _drive_direct(case, objs, frames_data, grid, fs, log, cnt, aborted) -> bool:
    state0 = _make_state(case, grid, frames_data[0])
    # what a Controller hands to the trackers: its own diagnostics plus the solver's
    info: dict = {"controller": {"t_start": 0.0, "t_end": 1.0, "jit_count": {"make_stepper": 0}},
                  "package_version": "0", "solver": _solver_info(case.get("dt", 1.0))}
    for _, tr in objs:
        tr.initialize(state0, info)
    for t, fi in case.get("schedule", []):
        state = _make_state(case, grid, frames_data[fi % len(frames_data)])
        if case["collection"]:
            state[0].data[...] = frames_data[(fi + 1) % len(frames_data)]
        for _, tr in objs:
            try:
                tr.handle(state, t)
            except Exception:
                if aborted["by"] == "droplet_handle":
                    return False
                raise
    if case["end"]["kind"] == "abort":
        cnt.inc("fault.abort_without_finalize")
        return False
    _arm_disk(case, fs)
    ok = True
    for spec, tr in objs:
        try:
            tr.finalize(info)
        except Exception as exc:
            ok = False
            err = SutError(exc)
            log.add("finalize_raised", exc=err.exc_type)
            if any(k.startswith("fault.e") or k == "fault.truncate_eio" for k in fs.counters):
                cnt.inc("probe.finalize_raised_under_disk_fault")
            else:
                cnt.inc("probe.finalize_raised_clean")
                aborted.setdefault("finalize_errors", []).append((spec["type"], err))
            tr._verif_finalize_failed = True
    fs.arm(None)
    return True


def _drive_controller(case, objs, frames_data, grid, clock, fs, log, cnt, aborted):
    from pde.solvers.controller import Controller

    t0, t1 = case["t_range"]
    trackers = [tr for _, tr in objs]
    end = case["end"]
    if end["kind"] in ("finished", "stopiteration"):
        trackers.append(_make_stopper(end["kind"], end["at"], log, cnt))
    if case["mode"] == "A":
        solver, state = _make_real_solver(case, grid)
    else:
        solver = ScriptedSolver(frames_data, case["dt"], clock, case["clock"]["costs"], end,
                                case["collection"], log, cnt)
        state = _make_state(case, grid, frames_data[0])
    ctrl = Controller(solver, t_range=(t0, t1), tracker=trackers)
    # finalize is intercepted to arm the disk fault right before it and to learn that it ran
    ran = {"finalize": False}
    for spec, tr in objs:
        orig_fin = tr.finalize

        def fin(info=None, _orig=orig_fin, _tr=tr, _spec=spec):
            ran["finalize"] = True
            if _spec["type"] == "droplet":
                _arm_disk(case, fs)
            try:
                _orig(info)
            except Exception:
                _tr._verif_finalize_failed = True
                raise
            finally:
                fs.arm(None)

        tr.finalize = fin
    try:
        final = ctrl.run(state, dt=case["dt"])
    except InjectedStepperError as exc:
        return False, exc
    except Exception as exc:
        return ran["finalize"], exc
    cnt.inc(f"end.{ctrl.info.get('stop_reason', '?').replace(' ', '_')}")
    if case.get("second_run") and case["mode"] == "B":
        # the same tracker objects are used for a second run (a continued / restarted
        # simulation): the fields and times of both runs form one sequence
        cnt.inc("fault.second_run_same_trackers")
        log.add("second_run", t_range=case["second_run"])
        for spec, tr in objs:
            tr._verif_finalize_failed = False
        solver2 = ScriptedSolver(frames_data[::-1], case["dt"], clock, case["clock"]["costs"],
                                 {"kind": "t_end", "at": 0}, case["collection"], log, cnt)
        ctrl2 = Controller(solver2, t_range=tuple(case["second_run"]), tracker=[tr for _, tr in objs])
        try:
            ctrl2.run(final if final is not None else state, dt=case["dt"])
        except Exception as exc:
            return ran["finalize"], exc
    return ran["finalize"], None


def _make_real_solver(case, grid):
    from pde import AllenCahnPDE, CahnHilliardPDE, ExplicitSolver, ScalarField

    p = case["pde"]
    rng = np.random.default_rng(p["seed"])
    state = ScalarField.random_uniform(grid, -1, 1, rng=rng)
    eq = CahnHilliardPDE(interface_width=1.0) if p["kind"] == "cahn_hilliard" else AllenCahnPDE(interface_width=1.0)
    try:
        solver = ExplicitSolver(eq, backend="numpy")
    except TypeError:
        solver = ExplicitSolver(eq)
    return solver, state


def _check_droplet_history(spec, tr, tapped, finalized, fs, V, cnt, log, MemoryStorage):
    import droplets

    sig = {"tracker": "droplet"}
    data = tr.data
    npre = tr._verif_prefill_n
    if len(data.times) != len(data.emulsions):
        V.append(Violation("C14.O2", "times and emulsions of the recorded time course have "
                           "different length", {**sig, "kind": "alignment"}))
        return
    if npre:
        pre = droplets.EmulsionTimeCourse(data.emulsions[:npre], data.times[:npre])
        if len(data.times) < npre or gen.fingerprint(pre)[2] != tr._verif_prefill_fp[2]:
            V.append(Violation("C14.O2", "pre-filled part of the time course was changed",
                               {**sig, "kind": "prefix"}))
    rec_times = data.times[npre:]
    rec_ems = data.emulsions[npre:]
    if len(rec_times) != len(tapped):
        V.append(Violation("C14.O2", f"{len(tapped)} frames reached the tracker but "
                           f"{len(rec_times)} were recorded", {**sig, "kind": "count"}))
        return
    if tapped and all(s is not None for _, s in tapped):
        st = MemoryStorage.from_fields([t for t, _ in tapped], [s.copy() for _, s in tapped])
        kw = (dict(threshold=0.5, minimal_radius=0, modes=0, refine_args=None, refine=False)
              if spec.get("defaults") else
              dict(threshold=spec["threshold"], minimal_radius=spec["minimal_radius"],
                   modes=spec["perturbation_modes"], refine=spec["refine"],
                   refine_args=copy.deepcopy(spec["refine_args"])))
        how = spec.get("offline", "memory")
        cnt.inc("offline." + how)
        try:
            off = _offline_analysis(how, st, kw, fs, cnt)
        except Exception:
            cnt.inc("probe.offline_history_raised")
            off = None
        if off is not None:
            cnt.inc("histories_compared_offline")
            if len(off.times) != len(rec_times) or any(
                    not same_float_bits(a, b) for a, b in zip(off.times, rec_times)):
                V.append(Violation("C14.O2", f"times of the recorded time course "
                                   f"{[float(x) for x in rec_times][:6]} differ from the offline "
                                   f"ones {[float(x) for x in off.times][:6]}",
                                   {**sig, "kind": "times_history"}))
            else:
                for i, (a, b) in enumerate(zip(off.emulsions, rec_ems)):
                    if not scenes.emulsion_equal_bits(a, b):
                        V.append(Violation(
                            "C14.O2", f"frame {i} of the recorded time course differs from the "
                            f"offline analysis of the stored fields", {**sig, "kind": "frame_history"}))
                        break
    # O3: the file written at the end reads back equal to the recorded data
    if finalized and spec["filename"] and not getattr(tr, "_verif_finalize_failed", False):
        path = tr.filename
        cnt.inc("files_checked")
        try:
            back = droplets.EmulsionTimeCourse.from_file(path, progress=False)
        except Exception as exc:
            err = SutError(exc)
            V.append(Violation("C14.O3", f"file written by finalize cannot be read back: "
                               f"{err.text}", {**sig, "kind": "file_unreadable",
                                               "exc_type": err.exc_type}))
            return
        if gen.fingerprint(back) != gen.fingerprint(data):
            V.append(Violation("C14.O3", "file written by finalize reads back different from "
                               "the recorded data", {**sig, "kind": "file_differs"}))
    elif finalized and spec["filename"]:
        cnt.inc("probe.finalize_raised")


def _offline_analysis(how, st, kw, fs, cnt):
    """EmulsionTimeCourse.from_storage over the stored frames, reached in different ways."""
    import contextlib
    import io

    import droplets
    from simkit import simexec

    if how == "file":
        from pde import FileStorage

        path = f"{simfs.ROOT}/stored_frames_{fs.total_writes}.h5"
        w = FileStorage(path, write_mode="truncate")
        w.start_writing(st[0])
        for t, f in st.items():
            w.append(f, t)
        w.end_writing()
        w.close()
        r = FileStorage(path, write_mode="readonly")
        try:
            return droplets.EmulsionTimeCourse.from_storage(r, num_processes=1, progress=False, **kw)
        finally:
            r.close()
    if how == "parallel":
        with simexec.PoolScript(auto_workers=3, choices=[2, 1, 0, 1], counters=cnt):
            return droplets.EmulsionTimeCourse.from_storage(st, num_processes=3, progress=False, **kw)
    if how == "parallel_progress":
        with simexec.PoolScript(auto_workers=3, choices=[2, 1, 0, 1], counters=cnt), \
                contextlib.redirect_stderr(io.StringIO()):
            return droplets.EmulsionTimeCourse.from_storage(st, num_processes=3, progress=True, **kw)
    if how in ("progress", "progress_default"):
        with contextlib.redirect_stderr(io.StringIO()):
            if how == "progress":
                return droplets.EmulsionTimeCourse.from_storage(st, num_processes=1, progress=True, **kw)
            return droplets.EmulsionTimeCourse.from_storage(st, **kw)
    return droplets.EmulsionTimeCourse.from_storage(st, num_processes=1, progress=False, **kw)


def _probe_json(fs, path, tr, cnt):
    import json

    try:
        body = json.loads(fs.files[path].decode())
        ok = len(body["times"]) == len(tr.times) and len(body["length_scales"]) == len(tr.length_scales)
        cnt.inc("probe.json_roundtrip_ok" if ok else "probe.json_roundtrip_differs")
    except Exception:
        cnt.inc("probe.json_unreadable")


# --------------------------------------------------------------------------- shrinking


def shrink(case: dict):
    c = case
    if len(c["trackers"]) > 1:
        for i in range(len(c["trackers"])):
            yield {**c, "trackers": [c["trackers"][i]]}
    if c.get("schedule"):
        s = c["schedule"]
        if len(s) > 1:
            yield {**c, "schedule": s[: len(s) // 2]}
            yield {**c, "schedule": s[len(s) // 2:]}
        for i in range(len(s)):
            yield {**c, "schedule": s[:i] + s[i + 1:]}
    if len(c["frames"]) > 1:
        for i in range(len(c["frames"])):
            yield {**c, "frames": c["frames"][:i] + c["frames"][i + 1:]}
    if c["mode"] == "B":
        t0, t1 = c["t_range"]
        n = round((t1 - t0) / c["dt"])
        if n > 1:
            yield {**c, "t_range": [t0, t0 + (n // 2) * c["dt"]]}
            yield {**c, "t_range": [t0, t1 - c["dt"]]}
        if c["end"]["kind"] != "t_end":
            yield {**c, "end": {"kind": "t_end", "at": 0}}
        if len(c["clock"]["costs"]) > 1 or c["clock"]["costs"] != [0.01]:
            yield {**c, "clock": {"costs": [0.01]}}
    if c.get("disk_fault"):
        yield {**c, "disk_fault": None}
    if c.get("second_run"):
        yield {k: v for k, v in c.items() if k != "second_run"}
    for ti, t in enumerate(c["trackers"]):
        def rep(nt):
            return {**c, "trackers": c["trackers"][:ti] + [nt] + c["trackers"][ti + 1:]}
        if c["mode"] != "C" and t["interrupts"] != {"kind": "const", "dt": c["dt"]}:
            yield rep({**t, "interrupts": {"kind": "const", "dt": c["dt"]}})
        if t["type"] == "droplet":
            for k, simple in (("refine", False), ("refine_args", None), ("perturbation_modes", 0),
                              ("threshold", 0.5), ("minimal_radius", 0), ("prefill", 0),
                              ("filename", False)):
                if t.get(k) != simple:
                    yield rep({**t, k: simple})
        else:
            if t.get("fail_at"):
                yield rep({**t, "fail_at": []})
                for j in range(len(t["fail_at"])):
                    yield rep({**t, "fail_at": t["fail_at"][:j] + t["fail_at"][j + 1:]})
            if t.get("filename"):
                yield rep({**t, "filename": False})
    for fi, f in enumerate(c["frames"]):
        for k in ("noise", "affine"):
            if k in f:
                nf = {kk: vv for kk, vv in f.items() if kk != k}
                yield {**c, "frames": c["frames"][:fi] + [nf] + c["frames"][fi + 1:]}


def describe(case: dict) -> dict:
    return {"mode": case["mode"], "grid": case["grid"], "collection": case["collection"],
            "frames": [{"kind": f.get("kind", "scene"), "n": len(f.get("droplets", [])),
                        "noise": f.get("noise")} for f in case["frames"]],
            "t_range": case["t_range"], "dt": case["dt"], "trackers": case["trackers"],
            "end": case["end"], "clock": case["clock"], "disk_fault": case["disk_fault"],
            "second_run": case.get("second_run"),
            "schedule": case.get("schedule")}
