"""C09 (scoped) — analysis never aborts on valid input and returns finite droplets.

Scope: C09 quantifies over inputs.  What simulation adds is the whole pipeline run as one
experiment — world scene -> rendering (all droplet classes) -> camera faults (constant,
binary, noise bursts, single-cell specks, off-axis-only blobs on cylindrical grids,
droplets on a cell centre, droplets spanning a periodic cylinder, rescaled intensities,
empty frames) -> locate_droplets with an option swarm -> DropletTracker /
LengthScaleTracker.handle -> time course -> tracking (both methods) -> file — asserting
the base invariant of every simulation run: no exception escapes a public entry point on
a valid request and every returned droplet parameter is finite (unset width excepted).
Documented invalid requests must raise ValueError.  The check decides C09 for the inputs
this experiment reaches, not for all finite fields.
"""

from __future__ import annotations

import copy
import math

import numpy as np

from simkit import gen, scenes, simfs
from simkit.core import Counter, EventLog, Outcome, Streams, SutError, Violation

PROPERTY = "C09"
LEVEL = "exploration"
RULE = (
    "Each run = one pipeline experiment on a seeded grid (Cartesian 1-3D with any periodicity "
    "and anisotropic spacing, cylindrical, polar, spherical; tiny to moderate shapes): 1-5 "
    "frames of rendered scenes (all five droplet classes where compatible) with degenerate-"
    "frame faults, an option swarm for locate_droplets (threshold rule, minimal radius, "
    "interface width, modes, refine, refine_args), tracker callbacks, tracking with both "
    "methods and a file round trip; plus documented invalid requests at a low rate. A run is "
    "non-trivial when at least one degenerate-frame fault fired or a non-default option "
    "combination was used; distinct = distinct run digests."
)
INTERLEAVING_MEASURE = "distinct (grid family, dimension, frame kinds, option cell) tuples"
ASSUMPTIONS = [
    "scoped: decides C09 for the frames this experiment produces, not for all finite fields",
    "numpy's default error state (warnings, not exceptions) is used, as shipped",
    "least-squares refinement is capped (max_nfev) to bound run time; this does not change "
    "whether it raises",
]
REAL_VS_STUB = {
    "real": ["droplets.* (rendering, locate_droplets, refine, trackers, tracking, IO)",
             "numpy/scipy ndimage + least_squares", "py-pde grids and fields", "HDF5/h5py"],
    "stub": ["frame source: simkit.scenes camera with degenerate-frame faults", "disk: simkit.simfs"],
}
TIERS = {
    "quick": {"runs": 9000, "budget_s": 60, "chunk": 25, "det_pairs": 48, "fresh": 4},
    "thorough": {"runs": 60000, "budget_s": 900, "chunk_timeout": 900, "chunk": 30, "det_pairs": 384, "fresh": 24},
}


def _gen_grid(rng):
    r = rng.random()
    if r < 0.22:
        return scenes.random_cart_grid(rng, dim=1, min_n=rng.choice([2, 4, 8, 16]))
    if r < 0.52:
        return scenes.random_cart_grid(rng, dim=2, max_cells=576, min_n=rng.choice([2, 3, 6, 10]))
    if r < 0.68:
        return scenes.random_cart_grid(rng, dim=3, max_cells=729, min_n=rng.choice([2, 4, 6]))
    if r < 0.86:
        g = scenes.random_cyl_grid(rng, max_cells=300)
        if rng.random() < 0.3:
            g["shape"] = [rng.randint(2, 6), rng.randint(2, 8)]
            g["radius"] = float(g["shape"][0])
            g["bounds_z"] = [0.0, float(g["shape"][1])]
        return g
    g = scenes.random_sym_grid(rng)
    if rng.random() < 0.3:
        g["shape"] = rng.randint(2, 6)
        g["radius"] = float(g["shape"])
    if rng.random() < 0.3:
        # annulus / spherical shell: the grid has an inner hole
        g["r_inner"] = scenes.q(rng.uniform(0.25, 0.6) * g["radius"])
    return g


def _scene(rng, grid):
    """Valid droplets on a compatible grid."""
    kind = grid["kind"]
    out = []
    if kind == "cart":
        dim = len(grid["shape"])
        b = grid["bounds"]
        classes = ["SphericalDroplet", "DiffuseDroplet", "DiffuseDroplet"]
        if dim == 2:
            classes += ["PerturbedDroplet2D"] * 2
        if dim == 3:
            classes += ["PerturbedDroplet3D", "PerturbedDroplet3DAxisSym"]
        for _ in range(rng.choice([0, 1, 1, 2, 3])):
            cls = rng.choice(classes)
            size = min(hi - lo for lo, hi in b)
            r = scenes.q(rng.uniform(0.25, max(0.5, size / 3)))
            pos = [scenes.q(rng.uniform(lo - 1, hi + 1)) for lo, hi in b]
            if rng.random() < 0.3:  # exactly on a cell centre
                pos = [lo + (rng.randrange(n) + 0.5) * (hi - lo) / n
                       for (lo, hi), n in zip(b, grid["shape"])]
            if cls == "PerturbedDroplet3DAxisSym":
                pos[0] = pos[1] = 0.0
            s = {"cls": cls, "position": pos, "radius": r}
            if cls != "SphericalDroplet":
                s["interface_width"] = rng.choice([None, 0.0, 0.5, 1.0, 2.0])
            if cls.startswith("Perturbed"):
                n = rng.choice([1, 2, 3, 4]) if cls != "PerturbedDroplet3D" else rng.choice([1, 3, 8])
                s["amplitudes"] = [scenes.q(rng.uniform(-0.4, 0.4)) for _ in range(n)]
            out.append(s)
    elif kind == "cyl":
        z0, z1 = grid["bounds_z"]
        for _ in range(rng.choice([0, 1, 1, 2])):
            cls = rng.choice(["SphericalDroplet", "DiffuseDroplet", "PerturbedDroplet3DAxisSym"])
            r = scenes.q(rng.uniform(0.5, max(0.75, grid["radius"])))
            if rng.random() < 0.15:
                r = float(z1 - z0)  # spans the whole (periodic) cylinder
            s = {"cls": cls, "position": [0.0, 0.0, scenes.q(rng.uniform(z0 - 1, z1 + 1))], "radius": r}
            if cls != "SphericalDroplet":
                s["interface_width"] = rng.choice([None, 0.0, 1.0])
            if cls.startswith("Perturbed"):
                s["amplitudes"] = [scenes.q(rng.uniform(-0.4, 0.4)) for _ in range(rng.choice([1, 2, 3]))]
            out.append(s)
    else:
        d = scenes.grid_dim(grid)
        if rng.random() < 0.85:
            s = {"cls": rng.choice(["SphericalDroplet", "DiffuseDroplet"]), "position": [0.0] * d,
                 "radius": scenes.q(rng.uniform(0.25, grid["radius"] * 1.2))}
            if s["cls"] == "DiffuseDroplet":
                s["interface_width"] = rng.choice([None, 0.0, 1.0])
            out.append(s)
    return out


def _gen_frame(rng, grid):
    kind = rng.choice(["scene"] * 6 + ["constant", "binary", "noise", "specks", "empty", "offaxis",
                                       "shell"])
    f = {"grid": grid, "droplets": [], "tag": kind}
    if kind == "constant":
        return {"grid": grid, "kind": "constant", "value": rng.choice([0.0, 1.0, 0.5, -3.0, 1e-300]),
                "tag": kind}
    if kind in ("scene", "binary", "specks", "shell"):
        f["droplets"] = _scene(rng, grid)
    if kind == "binary":
        f["kind"] = "binary"
    if kind == "noise" or rng.random() < 0.2:
        f["noise"] = {"seed": rng.randrange(1 << 30), "amp": rng.choice([0.05, 0.3, 1.0])}
    if kind == "specks":
        shape = grid["shape"] if isinstance(grid["shape"], list) else [grid["shape"]]
        f["specks"] = [[rng.randrange(n) for n in shape] for _ in range(rng.choice([1, 1, 2, 5]))]
        # two- and three-cell bars along one axis: on anisotropic grids their equal-volume
        # sphere can be smaller than half the spacing, i.e. cover no cell centre at all
        for _ in range(rng.choice([0, 1, 1, 2])):
            c = [rng.randrange(n) for n in shape]
            ax = rng.randrange(len(shape))
            for k in range(rng.choice([2, 2, 3])):
                cc = list(c)
                cc[ax] = (c[ax] + k) % shape[ax]
                f["specks"].append(cc)
    if kind == "offaxis":
        # objects away from the symmetry axis / origin only
        shape = grid["shape"] if isinstance(grid["shape"], list) else [grid["shape"]]
        cells = []
        for _ in range(rng.choice([1, 2])):
            c = [rng.randrange(n) for n in shape]
            c[0] = max(1, c[0]) if shape[0] > 1 else 0
            cells.append(c)
        f["specks"] = cells
    if kind == "shell":
        f["invert"] = True
    if rng.random() < 0.15:
        f["affine"] = [rng.choice([0.0, -1.0, 10.0]), rng.choice([1.0, 1e-3, 100.0, -1.0])]
    if rng.random() < 0.14:
        # images and masks: single-precision, integer and boolean fields are finite fields too
        f["dtype"] = rng.choice(["float32", "bool", "bool", "int64", "uint8", "int8"])
    return f


def _gen_options(rng, grid):
    dim = scenes.grid_dim(grid)
    o = {"threshold": rng.choice([0.5, 0.5, 0.25, 0.9, -1.0, 2.0, "auto", "extrema", "mean", "otsu"]),
         "minimal_radius": rng.choice([0, 0, 0.5, 2.0, -1, -math.inf if False else 0])}
    if rng.random() < 0.25:
        o["interface_width"] = rng.choice([0.0, 0.5, 1.0, 3.0, 20.0])  # (also wider than the grid)
    modes = 0
    if dim in (2, 3) and rng.random() < 0.35:
        modes = rng.choice([1, 2, 3, 4])
    o["modes"] = modes
    o["refine"] = rng.random() < 0.45
    if o["refine"]:
        if rng.random() < 0.5:
            ra = copy.deepcopy(rng.choice([None, {}, {"vmin": None, "vmax": None}, {"adjust_values": True},
                                           {"tolerance": 1e-2}, {"vmin": None}]))
            ra = dict(ra or {})
        else:
            # every documented refinement option drawn independently of the others
            ra = {}
            if rng.random() < 0.4:
                ra["vmin"] = rng.choice([None, None, 0.0])
            if rng.random() < 0.4:
                ra["vmax"] = rng.choice([None, None, 1.0])
            if rng.random() < 0.4:
                ra["adjust_values"] = rng.choice([True, True, False])
            if rng.random() < 0.25:
                ra["tolerance"] = rng.choice([1e-3, 1e-2])
        ra.setdefault("least_squares_params", {"max_nfev": 8})
        o["refine_args"] = ra
        # refinement may be handed to worker processes (simulated pool): the number of workers is
        # one more documented option, and frames with fewer candidates than workers (or none at
        # all) are ordinary input
        if rng.random() < 0.35:
            o["num_processes"] = rng.choice([2, 2, 3, 4, "auto"])
    return o


def _gen_stress(rng) -> dict:
    """Locator stress: many dense random binary masks on one tiny, mostly periodic Cartesian
    grid (clusters touching and wrapping around the boundaries in every possible topology)."""
    dim = rng.choice([1, 2, 2, 2, 3])
    nmax = {1: 12, 2: 9, 3: 5}[dim]
    shape = [rng.randint(2, nmax) for _ in range(dim)]
    dx = [rng.choice([1.0, 1.0, 0.5, 2.0]) for _ in range(dim)]
    lo = [rng.choice([0.0, 0.0, -3.5]) for _ in range(dim)]
    grid = {"kind": "cart", "bounds": [[a, a + n * d] for a, n, d in zip(lo, shape, dx)],
            "shape": shape, "periodic": [rng.random() < 0.8 for _ in range(dim)]}
    return {"grid": grid, "mask_seeds": [rng.randrange(1 << 30) for _ in range(40)],
            "density": rng.choice([0.3, 0.4, 0.5, 0.6]),
            "faces": rng.random() < 0.5,
            "minimal_radius": rng.choice([-1, "-inf", -1, 0]),
            "threshold": rng.choice([0.5, "auto", "mean"])}


def generate(streams: Streams, tier: str, index: int) -> dict:
    rng = streams["workload"]
    if rng.random() < 0.25:
        return {"stress": _gen_stress(rng)}
    grid = _gen_grid(rng)
    frames = [_gen_frame(rng, grid) for _ in range(rng.choice([1, 1, 2, 3, 5]))]
    trk_opts = _gen_options(rng, grid)
    case = {"grid": grid, "frames": frames, "locate": _gen_options(rng, grid),
            # the caller keeps ONE options dict (incl. the nested refine_args) and passes it to
            # every call of the run, as scripts do; otherwise every call gets a fresh copy
            "share_args": rng.random() < 0.6,
            # a further call on the first frame with the same refine_args but another mode count
            "second_modes": rng.choice([None, None, 0, 1, 2, 3]),
            "tracker": {"threshold": rng.choice([0.5, "auto", "otsu"]),
                        "refine": rng.random() < 0.2,
                        "modes": trk_opts["modes"] if rng.random() < 0.3 else 0,
                        "refine_args": trk_opts.get("refine_args") if rng.random() < 0.5 else
                        {"least_squares_params": {"max_nfev": 6}},
                        "minimal_radius": rng.choice([0, 0, 0.5, -1]),
                        # the simulation state may be a collection of fields of which one is
                        # analysed (selected by index, also index 0, or by a callable)
                        "source": rng.choice([None, None, None, None, 0, 1, "callable"]),
                        "length_method": rng.choice(["structure_factor_mean",
                                                     "structure_factor_maximum", "droplet_detection"])},
            "tracking": {"method": rng.choice(["overlap", "distance"]), "grid": rng.random() < 0.5,
                         "max_dist": rng.choice([None, 1.0, 5.0])},
            "invalid": None}
    if rng.random() < 0.1:
        case["invalid"] = rng.choice(["modes_1d", "dim_mismatch", "dim_mismatch"])
        # which droplet is rendered on the run's grid: any class of any other dimension
        case["invalid_droplet"] = {"dim": rng.choice([1, 2, 3]),
                                   "cls": rng.choice(["SphericalDroplet", "DiffuseDroplet", "perturbed"]),
                                   "via": rng.choice(["droplet", "droplet", "emulsion"])}
    # the stored frames are also analysed offline with worker processes (simulated pool)
    case["offline"] = {"workers": rng.choice([1, 2, 2, 3, 4, "auto"]), "auto_workers": rng.randint(1, 16),
                       "choices": [rng.randrange(8) for _ in range(4)]}
    return case


# --------------------------------------------------------------------------- execution


def _render(frame):
    f = dict(frame)
    inv = f.pop("invert", False)
    field = scenes.render(f)
    if inv:
        field.data[...] = 1 - field.data
    return field


def _finite_violation(em, stage):
    for i, d in enumerate(em):
        for name in d.data.dtype.names:
            val = np.atleast_1d(np.asarray(d.data[name], dtype=float))
            if name == "interface_width" and np.all(np.isnan(val)):
                continue
            if not np.all(np.isfinite(val)):
                return f"{stage}: droplet {i} ({type(d).__name__}) has non-finite {name} = {val.tolist()}"
    return None


def _stress_mask(st: dict, seed: int, shape) -> np.ndarray:
    rng = np.random.default_rng(seed)
    data = (rng.random(shape) < st["density"]).astype(float)
    if st.get("faces"):
        for ax in range(len(shape)):
            for side in (0, -1):
                idx = [slice(None)] * len(shape)
                idx[ax] = side
                face = data[tuple(idx)]
                data[tuple(idx)] = np.maximum(face, rng.random(face.shape) < 0.5)
    return data


def _execute_stress(case: dict) -> Outcome:
    from droplets.image_analysis import locate_droplets
    from pde import ScalarField

    log = EventLog()
    cnt = Counter()
    V: list[Violation] = []
    st = case["stress"]
    grid = scenes.make_grid(st["grid"])
    mr = -math.inf if st["minimal_radius"] == "-inf" else st["minimal_radius"]
    dim = len(st["grid"]["shape"])
    log.add("stress", grid=st["grid"], n=len(st["mask_seeds"]), density=st["density"], mr=st["minimal_radius"])
    cnt.inc("fault.frame_dense_binary", len(st["mask_seeds"]))
    for seed in st["mask_seeds"]:
        data = _stress_mask(st, seed, grid.shape)
        try:
            em = locate_droplets(ScalarField(grid, data), st["threshold"], minimal_radius=mr)
        except Exception as exc:
            err = SutError(exc)
            V.append(Violation("C09.O1", f"locate raised {err.text} on a dense binary frame (grid cart "
                               f"{dim}D periodic={st['grid']['periodic']}, mask seed {seed})",
                               {"stage": "locate", "family": "cart", "exc_type": err.exc_type,
                                "frame": err.frame, "kind": "stress"}))
            break
        cnt.inc("located_frames")
        msg = _finite_violation(em, "locate")
        if msg:
            V.append(Violation("C09.O2", msg + f" (dense binary frame on a {dim}D grid periodic="
                               f"{st['grid']['periodic']}, mask seed {seed}, minimal_radius="
                               f"{st['minimal_radius']})", {"stage": "locate", "family": "cart",
                                                            "kind": "stress"}))
            break
        log.add("located", seed=seed, n=len(em), fp=scenes.emulsion_fingerprint(em)[:4])
    return Outcome(digest=log.digest(), violations=V, counters=cnt, nontrivial=True,
                   events=log.count, log_head=log.head,
                   coverage_keys=[repr(("stress", dim, tuple(st["grid"]["periodic"]),
                                        st["minimal_radius"], st["threshold"]))])


def execute(case: dict) -> Outcome:
    import droplets
    from droplets.image_analysis import locate_droplets
    from pde import MemoryStorage

    if "stress" in case:
        return _execute_stress(case)
    log = EventLog()
    cnt = Counter()
    V: list[Violation] = []
    grid_spec = case["grid"]
    fam = grid_spec["kind"]
    dim = scenes.grid_dim(grid_spec)
    opts = dict(case["locate"])
    log.add("case", grid=grid_spec, frames=[f.get("tag") for f in case["frames"]], locate=opts,
            invalid=case.get("invalid"))
    for f in case["frames"]:
        if f.get("tag") not in ("scene", None):
            cnt.inc(f"fault.frame_{f['tag']}")
    cells = []

    def guard(stage, fn, sig_extra=None):
        try:
            return True, fn()
        except Exception as exc:
            err = SutError(exc)
            sig = {"stage": stage, "family": fam, "exc_type": err.exc_type, "frame": err.frame}
            sig.update(sig_extra or {})
            V.append(Violation("C09.O1", f"{stage} raised {err.text} on a valid request "
                               f"(grid {fam} {dim}D)", sig))
            log.add("raised", stage=stage, exc=err.text)
            return False, None

    # ---- documented invalid requests
    inv = case.get("invalid")
    if inv == "modes_1d":
        g1 = scenes.make_grid({"kind": "cart", "bounds": [[0, 16]], "shape": [16], "periodic": [False]})
        fld = droplets.DiffuseDroplet([8.0], 3.0, 1.0).get_phase_field(g1)
        try:
            locate_droplets(fld, modes=2, refine=True)
            V.append(Violation("C09.O3", "perturbation modes in one dimension were accepted",
                               {"kind": "modes_1d"}))
        except ValueError:
            cnt.inc("probe.invalid_rejected_modes_1d")
        except Exception as exc:
            V.append(Violation("C09.O3", f"perturbation modes in one dimension raised "
                               f"{type(exc).__name__} instead of ValueError", {"kind": "modes_1d"}))
    elif inv == "dim_mismatch":
        g = scenes.make_grid(grid_spec)
        idr = case.get("invalid_droplet") or {"dim": 2, "cls": "SphericalDroplet", "via": "droplet"}
        other = idr["dim"] if idr["dim"] != g.dim else (2 if g.dim != 2 else 3)
        if idr["cls"] == "perturbed" and other == 2:
            d = droplets.droplets.PerturbedDroplet2D([1.0, 1.0], 1.0, 1.0, [0.125])
        elif idr["cls"] == "perturbed" and other == 3:
            d = droplets.droplets.PerturbedDroplet3D([1.0, 1.0, 1.0], 1.0, 1.0, [0.0, 0.125])
        elif idr["cls"] == "SphericalDroplet":
            d = droplets.SphericalDroplet([1.0] * other, 1.0)
        else:
            d = droplets.DiffuseDroplet([1.0] * other, 1.0, 1.0)
        cells.append(("dim_mismatch", fam, g.dim, other, type(d).__name__, idr["via"]))
        try:
            if idr["via"] == "emulsion":
                droplets.Emulsion([d]).get_phasefield(g)
            else:
                d.get_phase_field(g)
            V.append(Violation("C09.O3", f"rendering a {other}D {type(d).__name__} on a {g.dim}D grid "
                               f"({fam}) was accepted", {"kind": "dim_mismatch"}))
        except ValueError:
            cnt.inc("probe.invalid_rejected_dim_mismatch")
        except Exception as exc:
            V.append(Violation("C09.O3", f"droplet/grid dimension mismatch raised "
                               f"{type(exc).__name__}: {exc} instead of ValueError",
                               {"kind": "dim_mismatch", "exc_type": type(exc).__name__}))

    # ---- stage 1: rendering every droplet class on a compatible grid
    fields = []
    for fi, frame in enumerate(case["frames"]):
        classes = sorted({d["cls"] for d in frame.get("droplets", [])})
        ok, fld = guard("render", lambda: _render(frame), {"classes": ",".join(classes)})
        if not ok:
            continue
        if not np.all(np.isfinite(fld.data)):
            V.append(Violation("C09.O2", f"rendering produced a non-finite field ({classes})",
                               {"stage": "render", "family": fam}))
            continue
        fields.append((fi, fld))
        for c in classes:
            cells.append(("render", fam, dim, c))
    # ---- stage 2: locating with the option swarm
    emulsions = []
    shared_kw = {k: copy.deepcopy(v) for k, v in opts.items()}
    calls = [(fi, fld, None) for fi, fld in fields]
    if fields and case.get("second_modes") is not None and opts["refine"] and dim in (2, 3):
        calls.insert(1, (fields[0][0], fields[0][1], case["second_modes"]))
    for fi, fld, other_modes in calls:
        if case.get("share_args"):
            kw = shared_kw
        else:
            kw = {k: copy.deepcopy(v) for k, v in opts.items()}
        if other_modes is not None:
            # same (possibly shared) refine_args object, another droplet model
            kw = {**kw, "modes": other_modes}
            cnt.inc("probe.second_call_other_modes")
        tag = case["frames"][fi].get("tag", "scene")
        if kw.get("num_processes", 1) != 1:
            from simkit import simexec

            off0 = case.get("offline") or {"auto_workers": 3, "choices": [1, 0]}
            with simexec.PoolScript(auto_workers=off0["auto_workers"], choices=off0["choices"],
                                    counters=cnt):
                ok, em = guard("locate", lambda: locate_droplets(fld.copy(), **kw),
                               {"modes": str(opts["modes"] > 0), "refine": str(opts["refine"]),
                                "workers": str(kw["num_processes"])})
            cells.append(("locate_workers", fam, dim, tag, str(kw["num_processes"])))
        else:
            ok, em = guard("locate", lambda: locate_droplets(fld.copy(), **kw),
                           {"modes": str(opts["modes"] > 0), "refine": str(opts["refine"])})
        cells.append(("locate", fam, dim, tag, opts["modes"] > 0, opts["refine"],
                      str(opts["threshold"]) if isinstance(opts["threshold"], str) else "num",
                      "interface_width" in opts))
        if not ok:
            continue
        cnt.inc("located_frames")
        msg = _finite_violation(em, "locate")
        if msg:
            V.append(Violation("C09.O2", msg + f" (frame kind {tag}, options {opts})",
                               {"stage": "locate", "family": fam, "modes": str(opts["modes"] > 0),
                                "refine": str(opts["refine"])}))
        if other_modes is None:
            emulsions.append((fi, em))
        log.add("located", frame=fi, n=len(em), fp=scenes.emulsion_fingerprint(em)[:6])
    # ---- stage 3: tracker callbacks (a crash here aborts a whole simulation)
    tk = case["tracker"]
    if fields:
        tk_modes = tk.get("modes", 0) if dim in (2, 3) else 0
        src = tk.get("source")
        source = (lambda fc: fc[1]) if src == "callable" else src

        def state_of(fld):
            if src is None:
                return fld.copy()
            from pde import FieldCollection

            other = fld.copy()
            other.data[...] = 1 - other.data
            return FieldCollection([fld.copy(), other] if src == 0 else [other, fld.copy()])

        dt = droplets.DropletTracker(1, threshold=tk["threshold"], refine=tk["refine"], source=source,
                                     minimal_radius=tk.get("minimal_radius", 0),
                                     perturbation_modes=tk_modes,
                                     refine_args=copy.deepcopy(tk.get("refine_args")) or
                                     {"least_squares_params": {"max_nfev": 6}})
        lt = droplets.LengthScaleTracker(1, method=tk["length_method"], source=source)
        ok, _ = guard("tracker.initialize", lambda: (dt.initialize(state_of(fields[0][1]), {}),
                                                     lt.initialize(state_of(fields[0][1]), {})))
        for t, (fi, fld) in enumerate(fields):
            ok, _ = guard("DropletTracker.handle", lambda: dt.handle(state_of(fld), float(t)),
                          {"threshold": str(tk["threshold"]), "refine": str(tk["refine"]),
                           "source": str(src)})
            ok2, _ = guard("LengthScaleTracker.handle", lambda: lt.handle(state_of(fld), float(t)))
            cells.append(("tracker", fam, dim, case["frames"][fi].get("tag", "scene")))
        msg = None
        for em in dt.data.emulsions:
            msg = msg or _finite_violation(em, "DropletTracker")
        if msg:
            V.append(Violation("C09.O2", msg, {"stage": "tracker", "family": fam}))
        cnt.inc("tracker_frames", len(fields))
        # ---- stage 4: tracking the recorded time course (frames without droplets included)
        etc = dt.data
        tr = case["tracking"]
        kw = {"method": tr["method"]}
        if tr["grid"]:
            kw["grid"] = fields[0][1].grid
        if tr["method"] == "distance" and tr["max_dist"] is not None:
            kw["max_dist"] = tr["max_dist"]
        ok, tracks = guard("tracking", lambda: droplets.DropletTrackList.from_emulsion_time_course(etc, **kw),
                           {"method": tr["method"], "with_grid": str(tr["grid"])})
        cells.append(("tracking", fam, dim, tr["method"], tr["grid"],
                      tuple(min(len(e), 2) for e in etc.emulsions)))
        if ok:
            cnt.inc("tracked_histories")
            for trk in tracks:
                for d in trk.droplets:
                    if not np.all(np.isfinite(np.asarray(d.position))) or not math.isfinite(d.radius):
                        V.append(Violation("C09.O2", "tracking returned a non-finite droplet",
                                           {"stage": "tracking", "family": fam}))
                        break
        # ---- stage 4b: tracking the scene's own droplets (all classes, mixed within a frame,
        # empty frames included) as a time course, both methods
        def scene_course():
            ems = [droplets.Emulsion([scenes.make_droplet(s) for s in f.get("droplets", [])])
                   for f in case["frames"]]
            return droplets.EmulsionTimeCourse(ems, times=[float(i) for i in range(len(ems))])

        ok, setc = guard("scene_course", scene_course)
        if ok:
            for method in ("overlap", "distance"):
                kw2 = {"method": method}
                if tr["grid"]:
                    kw2["grid"] = fields[0][1].grid
                ok, tracks2 = guard(
                    "tracking", lambda: droplets.DropletTrackList.from_emulsion_time_course(setc, **kw2),
                    {"method": method, "with_grid": str(tr["grid"]), "input": "scene"})
                if ok:
                    cnt.inc("tracked_scene_histories")
                    if sum(len(t) for t in tracks2) != sum(len(e) for e in setc.emulsions):
                        V.append(Violation("C09.O2", "tracking the scene droplets returned "
                                           f"{sum(len(t) for t in tracks2)} droplets for "
                                           f"{sum(len(e) for e in setc.emulsions)}",
                                           {"stage": "tracking", "family": fam, "input": "scene"}))
        # also the offline route over stored fields
        st = MemoryStorage.from_fields([float(i) for i in range(len(fields))], [f for _, f in fields])
        ok, _ = guard("from_storage", lambda: droplets.EmulsionTimeCourse.from_storage(
            st, progress=False, threshold=tk["threshold"]))
        off = case.get("offline")
        if off:
            from simkit import simexec

            with simexec.PoolScript(auto_workers=off["auto_workers"], choices=off["choices"], counters=cnt):
                guard("from_storage", lambda: droplets.EmulsionTimeCourse.from_storage(
                    st, progress=False, num_processes=off["workers"], threshold=tk["threshold"]),
                    {"workers": str(off["workers"])})
                guard("tracks_from_storage", lambda: droplets.DropletTrackList.from_storage(
                    st, method=tr["method"], progress=False, num_processes=off["workers"]),
                    {"workers": str(off["workers"])})
            cells.append(("offline", fam, dim, str(off["workers"]), min(len(fields), 3)))
        # ---- stage 5: file round trip on the simulated disk
        with simfs.SimFS(counters=cnt) as fs:
            path = f"{simfs.ROOT}/c09.h5"
            ok, _ = guard("to_file", lambda: etc.to_file(path))
            if ok:
                guard("from_file", lambda: droplets.EmulsionTimeCourse.from_file(path, progress=False))
    nontrivial = any(f.get("tag") not in ("scene", None) for f in case["frames"]) or \
        opts["modes"] > 0 or opts["refine"] or "interface_width" in opts or opts["threshold"] != 0.5
    return Outcome(digest=log.digest(), violations=V[:6], counters=cnt, nontrivial=nontrivial,
                   events=log.count, log_head=log.head, coverage_keys=[repr(c) for c in cells])


def evidence_extra(records) -> dict:
    cells = set()
    for r in records:
        cells.update(r["coverage_keys"])
    return {"distinct_interleavings": len(cells), "cells_reached": sorted(cells)[:200]}


def shrink(case: dict):
    if "stress" in case:
        st = case["stress"]
        seeds = st["mask_seeds"]
        if len(seeds) > 1:
            yield {"stress": {**st, "mask_seeds": seeds[: len(seeds) // 2]}}
            yield {"stress": {**st, "mask_seeds": seeds[len(seeds) // 2:]}}
            for i in range(len(seeds)):
                yield {"stress": {**st, "mask_seeds": [seeds[i]]}}
        if st.get("faces"):
            yield {"stress": {**st, "faces": False}}
        if st["threshold"] != 0.5:
            yield {"stress": {**st, "threshold": 0.5}}
        return
    fr = case["frames"]
    if len(fr) > 1:
        for i in range(len(fr)):
            yield {**case, "frames": fr[:i] + fr[i + 1:]}
    for i, f in enumerate(fr):
        ds = f.get("droplets", [])
        for j in range(len(ds)):
            yield {**case, "frames": fr[:i] + [{**f, "droplets": ds[:j] + ds[j + 1:]}] + fr[i + 1:]}
        for k in ("noise", "affine", "invert"):
            if k in f:
                yield {**case, "frames": fr[:i] + [{kk: vv for kk, vv in f.items() if kk != k}] + fr[i + 1:]}
        sp = f.get("specks", [])
        for j in range(len(sp)):
            if len(sp) > 1:
                yield {**case, "frames": fr[:i] + [{**f, "specks": sp[:j] + sp[j + 1:]}] + fr[i + 1:]}
        for j, d in enumerate(ds):
            if d.get("amplitudes") and len(d["amplitudes"]) > 1:
                nd = {**d, "amplitudes": d["amplitudes"][:1]}
                yield {**case, "frames": fr[:i] + [{**f, "droplets": ds[:j] + [nd] + ds[j + 1:]}] + fr[i + 1:]}
    o = case["locate"]
    for k, simple in (("refine", False), ("modes", 0), ("threshold", 0.5), ("minimal_radius", 0)):
        if o.get(k) != simple:
            yield {**case, "locate": {**o, k: simple}}
    for kdrop in ("interface_width", "num_processes"):
        if kdrop in o:
            yield {**case, "locate": {k: v for k, v in o.items() if k != kdrop}}
    if "refine_args" in o and o["refine_args"] != {"least_squares_params": {"max_nfev": 8}}:
        yield {**case, "locate": {**o, "refine_args": {"least_squares_params": {"max_nfev": 8}}}}
    if case.get("invalid"):
        yield {**case, "invalid": None}
    t = case["tracker"]
    if t["refine"]:
        yield {**case, "tracker": {**t, "refine": False}}
    if t["threshold"] != 0.5:
        yield {**case, "tracker": {**t, "threshold": 0.5}}


def describe(case: dict) -> dict:
    if "stress" in case:
        return case
    return {"grid": case["grid"], "frames": [{"tag": f.get("tag"), "n": len(f.get("droplets", [])),
                                              "classes": sorted({d["cls"] for d in f.get("droplets", [])})}
                                             for f in case["frames"]],
            "locate": case["locate"], "tracker": case["tracker"], "tracking": case["tracking"],
            "invalid": case["invalid"]}
