"""C11 (scoped) — merging conserves volume and centre of mass over coalescence schedules.

Decided here: repeated merging regardless of grouping, independence of operand order,
identical results of the in-place / out-of-place / raw-data / compiled paths, operands
not modified unless in-place.  NOT decided here: the algebraic identity for all positive
reals (a proof obligation).

System: a coalescence world of 2-12 Spherical/Diffuse droplets; a seeded scheduler draws
the merge order (a random binary tree), the operand order of each merge and its code path.
"""

from __future__ import annotations

import math

import numpy as np

from simkit import scenes
from simkit.core import Counter, EventLog, Outcome, Streams, SutError, Violation

PROPERTY = "C11"
LEVEL = "exploration"
RULE = (
    "Each run = one seeded coalescence history: 2-12 Spherical/Diffuse droplets in 1-3D "
    "(lattice coordinates, zero-radius members included, equal/different/unset widths) and "
    "two independent merge schedules (which two survivors merge next, operand order, code "
    "path in {a.merge(b), a.merge(b, inplace=True), Class._merge_data(a,b,out), numba-"
    "compiled caller}). Invariants after every merge event and at the end of both schedules. "
    "A run is non-trivial when it has >= 2 merges with unequal radii; distinct = distinct "
    "run digests."
)
INTERLEAVING_MEASURE = "distinct (droplet count, merge tree shape, path sequence) tuples"
ASSUMPTIONS = [
    "scoped: grouping/order/path/immutability facets only; the for-all-reals algebra is not decided",
    "tolerances: conservation 1e-12 x merges (relative), cross-path 1e-14, in-place vs new bitwise",
]
REAL_VS_STUB = {
    "real": ["SphericalDroplet/DiffuseDroplet.merge, Class._merge_data (interpreted and called "
             "from a numba-compiled function)", "droplets.tools.spherical nd-compiled helpers"],
    "stub": ["the coalescence scheduler (which droplets merge, in which order, by which path)"],
}
TIERS = {
    "quick": {"runs": 40000, "budget_s": 50, "chunk": 250, "det_pairs": 64, "fresh": 6},
    "thorough": {"runs": 600000, "budget_s": 900, "chunk_timeout": 900, "chunk": 500, "det_pairs": 512, "fresh": 32},
}
PATHS = ["new", "inplace", "data", "data_out_a"]
_COMPILED: dict = {}


def generate(streams: Streams, tier: str, index: int) -> dict:
    rng = streams["workload"]
    srng = streams["schedule"]
    dim = rng.choice([1, 2, 2, 3, 3])
    cls = rng.choice(["SphericalDroplet", "DiffuseDroplet", "DiffuseDroplet"])
    n = rng.choice([2, 2, 3, 4, 5, 6, 8, 12])
    drops = []
    for _ in range(n):
        s = {"cls": cls, "position": [scenes.q(rng.uniform(-30, 30)) for _ in range(dim)],
             "radius": rng.choice([0.0, 0.0625, 0.5, 1.0, 1.0, scenes.q(rng.uniform(0.1, 9)),
                                   scenes.q(rng.uniform(0.1, 9)), 64.0])}
        if cls == "DiffuseDroplet":
            s["interface_width"] = rng.choice([None, 0.0, 0.5, 1.0, 1.0, scenes.q(rng.uniform(0, 3))])
        # how the droplet object came to be (all give the same droplet): constructor, from a
        # volume, through the volume / radius setters, across a process boundary, as a member
        # of an emulsion whose data was linked
        s["_w"] = 1  # placeholder removed below
        s["via"] = rng.choice(["ctor", "ctor", "ctor", "from_volume", "set_volume", "set_radius",
                               "pickled", "linked", "refined", "from_file"])
        drops.append(s)
    if all(d["radius"] == 0 for d in drops):
        drops[0]["radius"] = 1.0
    # a change of length units (the statement has none): microscopic and astronomical droplets
    unit = rng.choice([1, 1, 1, 1, 1, 1e-3, 1e-6, 2.0 ** -20, 1e-9, 1e3, 1e6])
    for d in drops:
        d.pop("_w", None)
        if unit != 1:
            d["position"] = [x * unit for x in d["position"]]
            d["radius"] = d["radius"] * unit
            if d.get("interface_width") is not None:
                d["interface_width"] = d["interface_width"] * unit
    if rng.random() < 0.04:
        # one coordinate in the subnormal range (the origin up to rounding noise of another
        # computation): intermediate products underflow, which is not an error
        d = drops[rng.randrange(len(drops))]
        d["position"][rng.randrange(dim)] = rng.choice([5e-324, 3e-310, -2.0e-308, 1e-320])
    # a small fraction of runs also goes through a numba-compiled caller (costly to compile)
    every = 400 if tier == "quick" else 150
    compiled = index % every == 0

    def sched():
        return [{"a": srng.randrange(64), "b": srng.randrange(64), "swap": srng.random() < 0.5,
                 "path": srng.choice(PATHS + (["compiled"] if compiled else []))}
                for _ in range(n - 1)]

    return {"dim": dim, "droplets": drops, "merges": sched(), "merges2": sched()}


def vol(r, dim):
    return {1: 2 * r, 2: math.pi * r * r, 3: 4 * math.pi / 3 * r ** 3}[dim]


def rad(v, dim):
    return {1: v / 2, 2: math.sqrt(v / math.pi), 3: (3 * v / (4 * math.pi)) ** (1 / 3)}[dim]


def rel_close(a, b, rel, scale=0.0) -> bool:
    a, b = np.asarray(a, dtype=float), np.asarray(b, dtype=float)
    tol = rel * np.maximum(np.maximum(np.abs(a), np.abs(b)), scale)
    return bool(np.all((np.abs(a - b) <= tol) | (np.isnan(a) & np.isnan(b))))


def _compiled_merge(cls):
    import numba

    if cls not in _COMPILED:
        f = cls._merge_data

        @numba.njit
        def call(a, b, out):
            f(a, b, out)

        _COMPILED[cls] = call
    return _COMPILED[cls]


def _make(s):
    d = scenes.make_droplet(s)
    via = s.get("via", "ctor")
    if via == "from_volume":
        d2 = type(d).from_volume(d.position, d.volume)
        if "interface_width" in d.data.dtype.names:
            d2.interface_width = d.interface_width
        return d2
    if via == "set_volume":
        d.volume = d.volume
    elif via == "set_radius":
        d.radius = float(d.radius)
    elif via == "pickled":
        import pickle

        d = pickle.loads(pickle.dumps(d))
    elif via == "linked":
        import droplets

        em = droplets.Emulsion([d])
        em.get_linked_data()
        d = em[0]
    elif via == "refined":
        # as handed back by the library's own refinement (changes the parameters slightly;
        # all references are taken from the live object afterwards)
        # (only diffuse droplets: refinement promotes a spherical droplet to a diffuse one, and
        # merging droplets of two classes is outside the statement)
        if type(d).__name__ == "DiffuseDroplet":
            d = scenes.refined_droplet(d)
    elif via == "from_file":
        import droplets
        from simkit import simfs

        with simfs.SimFS():
            path = f"{simfs.ROOT}/c11_droplet.h5"
            droplets.Emulsion([d]).to_file(path)
            d = droplets.Emulsion.from_file(path)[0]
    return d


def _run_schedule(drops, merges, dim, V, cnt, log, tag):
    """Apply one merge schedule; returns the final survivor (or None)."""
    from droplets.droplets import DiffuseDroplet, SphericalDroplet

    survivors = [_make(s) for s in drops]
    V0 = math.fsum(vol(d.radius, dim) for d in survivors)
    C0 = [math.fsum(vol(d.radius, dim) * float(d.position[k]) for d in survivors) / V0
          for k in range(dim)]
    scale = max([abs(float(x)) for d in survivors for x in d.position] +
                [float(d.radius) for d in survivors] + [1e-300])
    n_done = 0
    paths = []
    # a droplet merged with itself (both operands are the very same object): the volume
    # doubles, centre and width stay; in-place and out-of-place agree
    for si, d0 in enumerate(survivors[:3]):
        if d0.radius <= 0:
            continue
        try:
            c = d0.copy()
            c0 = c.data.tobytes()
            r_new = c.merge(c)
            unchanged = c.data.tobytes() == c0
            c2 = d0.copy()
            r_in = c2.merge(c2, inplace=True)
        except Exception as exc:
            err = SutError(exc)
            V.append(Violation("C11.O0", f"{tag}: merging a droplet with itself raised {err.text}",
                               {"path": "self", "dim": str(dim), "cls": type(d0).__name__,
                                "kind": "raised", "exc_type": err.exc_type, "frame": err.frame}))
            break
        cnt.inc("self_merges")
        sig = {"path": "self", "dim": str(dim), "cls": type(d0).__name__}
        want_r = rad(2 * vol(float(d0.radius), dim), dim)
        if not rel_close(r_new.radius, want_r, 1e-13) or not rel_close(r_new.position, d0.position, 1e-13, scale):
            V.append(Violation("C11.O1", f"{tag}: droplet {si} merged with itself gives r={r_new.radius!r}, "
                               f"pos={r_new.position.tolist()} instead of r={want_r!r}, "
                               f"pos={d0.position.tolist()}", {**sig, "kind": "formula"}))
        if r_in.data.tobytes() != r_new.data.tobytes():
            V.append(Violation("C11.O3", f"{tag}: droplet {si} merged with itself in place "
                               f"{r_in.data} differs from the out-of-place result {r_new.data}",
                               {**sig, "kind": "inplace_vs_new"}))
        if not unchanged:
            V.append(Violation("C11.O4", f"{tag}: out-of-place merge of droplet {si} with itself "
                               f"modified it", {**sig, "kind": "self_modified"}))
    for mi, mg in enumerate(merges):
        if len(survivors) < 2:
            break
        ia = mg["a"] % len(survivors)
        ib = mg["b"] % (len(survivors) - 1)
        if ib >= ia:
            ib += 1
        a, b = survivors[ia], survivors[ib]
        if a.radius + b.radius <= 0:
            # positive total volume is the precondition: pick a partner with volume
            alt = [j for j, d in enumerate(survivors) if j != ia and d.radius > 0]
            if not alt:
                cnt.inc("merges_skipped_zero_volume")
                continue
            ib = alt[0]
            b = survivors[ib]
        if mg["swap"]:
            a, b, ia, ib = b, a, ib, ia
        path = mg["path"]
        sig = {"path": path, "dim": str(dim), "cls": type(a).__name__}
        a0, b0 = a.data.tobytes(), b.data.tobytes()
        ra, rb = a.radius, b.radius
        va_acc, vb_acc = float(a.volume), float(b.volume)  # the public accessors
        Va, Vb = vol(ra, dim), vol(rb, dim)
        pa, pb = np.array(a.position, dtype=float), np.array(b.position, dtype=float)
        wa = a.data["interface_width"] if "interface_width" in a.data.dtype.names else None
        wb = b.data["interface_width"] if "interface_width" in b.data.dtype.names else None
        # reference (own formulas)
        want_r = rad(Va + Vb, dim)
        want_p = (Va * pa + Vb * pb) / (Va + Vb)
        # all non-mutating paths first, on copies
        try:
            res_new = a.copy().merge(b.copy())
            res_swapped = b.copy().merge(a.copy())
            ac = a.copy()
            res_inpl = ac.merge(b.copy(), inplace=True)
            out = np.record(np.zeros_like(a.data))
            type(a)._merge_data(a.copy().data, b.copy().data, out=out)
            a_alias = a.copy()
            type(a)._merge_data(a_alias.data, b.copy().data, out=a_alias.data)
            # the result may also be written over the SECOND operand; the first stays as it is
            b_alias, a_kept = b.copy(), a.copy()
            a_kept_bytes = a_kept.data.tobytes()
            type(a)._merge_data(a_kept.data, b_alias.data, out=b_alias.data)
            res_comp = None
            if path == "compiled":
                outc = np.record(np.zeros_like(a.data))
                _compiled_merge(type(a))(a.copy().data, b.copy().data, outc)
                res_comp = outc
                cnt.inc("compiled_merges")
        except Exception as exc:
            err = SutError(exc)
            V.append(Violation("C11.O0", f"{tag} merge {mi}: merging raised {err.text}",
                               {**sig, "kind": "raised", "exc_type": err.exc_type, "frame": err.frame}))
            return None
        # O1: merged droplet equals the reference formula
        if not rel_close(res_new.radius, want_r, 1e-13) or not rel_close(res_new.position, want_p, 1e-13, scale):
            V.append(Violation(
                "C11.O1", f"{tag} merge {mi}: merged droplet (r={res_new.radius!r}, pos="
                f"{res_new.position.tolist()}) differs from volume sum / volume-weighted mean "
                f"(r={want_r!r}, pos={want_p.tolist()}) for radii {ra}, {rb}",
                {**sig, "kind": "formula"}))
        if wa is not None and not (math.isnan(float(wa)) or math.isnan(float(wb))):
            if not rel_close(res_new.data["interface_width"], (float(wa) + float(wb)) / 2, 1e-15):
                V.append(Violation("C11.O1", f"{tag} merge {mi}: interface width "
                                   f"{float(res_new.data['interface_width'])!r} is not the mean of "
                                   f"{float(wa)!r} and {float(wb)!r}", {**sig, "kind": "width"}))
        # O2: operand order
        if not rel_close(res_swapped.radius, res_new.radius, 1e-15) or not rel_close(
                res_swapped.position, res_new.position, 1e-14, scale):
            V.append(Violation("C11.O2", f"{tag} merge {mi}: result depends on operand order "
                               f"({res_new.data} vs {res_swapped.data})", {**sig, "kind": "order"}))
        # O3: code paths agree
        if res_inpl.data.tobytes() != res_new.data.tobytes() or res_inpl is not ac:
            V.append(Violation("C11.O3", f"{tag} merge {mi}: in-place result {res_inpl.data} differs "
                               f"from out-of-place result {res_new.data}",
                               {**sig, "kind": "inplace_vs_new"}))
        if out.tobytes() != res_new.data.tobytes():
            V.append(Violation("C11.O3", f"{tag} merge {mi}: _merge_data(out=fresh) {out} differs "
                               f"from merge() {res_new.data}", {**sig, "kind": "data_vs_new"}))
        if a_alias.data.tobytes() != res_new.data.tobytes():
            V.append(Violation("C11.O3", f"{tag} merge {mi}: _merge_data(out=first operand) "
                               f"{a_alias.data} differs from merge() {res_new.data}",
                               {**sig, "kind": "aliased_out"}))
        if b_alias.data.tobytes() != res_new.data.tobytes():
            V.append(Violation("C11.O3", f"{tag} merge {mi}: _merge_data(out=second operand) "
                               f"{b_alias.data} differs from merge() {res_new.data}",
                               {**sig, "kind": "aliased_out_second"}))
        if a_kept.data.tobytes() != a_kept_bytes:
            V.append(Violation("C11.O4", f"{tag} merge {mi}: _merge_data(out=second operand) "
                               "modified the first operand", {**sig, "kind": "first_modified"}))
        if res_comp is not None:
            names = res_new.data.dtype.names
            if any(not rel_close(res_comp[nm], res_new.data[nm], 1e-14, scale if nm == "position" else 0)
                   for nm in names):
                V.append(Violation("C11.O3", f"{tag} merge {mi}: compiled path {res_comp} differs "
                                   f"from interpreted path {res_new.data}",
                                   {**sig, "kind": "compiled_vs_interpreted"}))
        # the scheduled path acts on the live objects
        try:
            if path == "inplace":
                merged = a.merge(b, inplace=True)
                if a0 == a.data.tobytes() and Vb > 0 and Va > 0:
                    V.append(Violation("C11.O4", f"{tag} merge {mi}: in-place merge left the droplet "
                                       f"unchanged", {**sig, "kind": "inplace_no_effect"}))
            elif path == "new":
                merged = a.merge(b)
            else:
                o = np.record(np.zeros_like(a.data))
                if path == "compiled":
                    _compiled_merge(type(a))(a.data, b.data, o)
                else:
                    type(a)._merge_data(a.data, b.data, out=o)
                merged = type(a).from_data(o)
        except Exception as exc:
            err = SutError(exc)
            V.append(Violation("C11.O0", f"{tag} merge {mi}: merging raised {err.text}",
                               {**sig, "kind": "raised", "exc_type": err.exc_type, "frame": err.frame}))
            return None
        # O1 through the public accessor of the live result: its volume is the sum of the volumes
        vm = float(merged.volume)
        if not rel_close(vm, va_acc + vb_acc, 1e-12) or not rel_close(vm, vol(float(merged.radius), dim), 1e-12):
            V.append(Violation("C11.O1", f"{tag} merge {mi} ({path}): volume of the merged droplet "
                               f"{vm!r} is not the sum {va_acc!r} + {vb_acc!r} of the operands' volumes "
                               f"(radius {float(merged.radius)!r})", {**sig, "kind": "volume_accessor"}))
        # O4: operands unmodified unless in-place
        if b.data.tobytes() != b0:
            V.append(Violation("C11.O4", f"{tag} merge {mi} ({path}): the second operand was "
                               f"modified", {**sig, "kind": "other_modified"}))
        if path != "inplace" and a.data.tobytes() != a0:
            V.append(Violation("C11.O4", f"{tag} merge {mi} ({path}): the first operand was modified "
                               f"although in-place merging was not requested",
                               {**sig, "kind": "self_modified"}))
        if path != "inplace" and (merged is a or merged is b or np.shares_memory(
                np.asarray(merged.data), np.asarray(a.data)) or np.shares_memory(
                np.asarray(merged.data), np.asarray(b.data))):
            V.append(Violation("C11.O4", f"{tag} merge {mi} ({path}): result shares memory with an "
                               f"operand", {**sig, "kind": "shares_memory"}))
        survivors = [d for j, d in enumerate(survivors) if j not in (ia, ib)] + [merged]
        n_done += 1
        paths.append(path)
        # O5: conservation over the surviving set after every merge event
        Vt = math.fsum(vol(d.radius, dim) for d in survivors)
        if not (Vt > 0 and math.isfinite(Vt)):
            V.append(Violation("C11.O5", f"{tag} after merge {mi}: total volume {Vt!r} of the "
                               f"surviving set differs from the initial {V0!r}",
                               {**sig, "kind": "conservation"}))
            return None
        Ct = [math.fsum(vol(d.radius, dim) * float(d.position[k]) for d in survivors) / Vt
              for k in range(dim)]
        tol = 1e-12 * n_done
        if not rel_close(Vt, V0, tol) or not rel_close(Ct, C0, tol, scale):
            V.append(Violation("C11.O5", f"{tag} after merge {mi}: total volume {Vt!r} / centre {Ct} "
                               f"of the surviving set differ from the initial {V0!r} / {C0}",
                               {**sig, "kind": "conservation"}))
            return None
        log.add("merge", tag=tag, i=mi, path=path, r=float(merged.radius),
                p=[float(x) for x in merged.position])
    cnt.inc("merges", n_done)
    for p in set(paths):
        cnt.inc(f"path.{p}", paths.count(p))
    return survivors, n_done, tuple(paths)


def execute(case: dict) -> Outcome:
    log = EventLog()
    cnt = Counter()
    V: list[Violation] = []
    dim = case["dim"]
    log.add("case", dim=dim, n=len(case["droplets"]), radii=[d["radius"] for d in case["droplets"]])
    r1 = _run_schedule(case["droplets"], case["merges"], dim, V, cnt, log, "schedule 1")
    r2 = None
    if not V:
        r2 = _run_schedule(case["droplets"], case["merges2"], dim, V, cnt, log, "schedule 2")
    inter = []
    nontrivial = False
    if r1 and r2 and not V:
        (s1, n1, p1), (s2, n2, p2) = r1, r2
        inter = [(len(case["droplets"]), n1, p1), (len(case["droplets"]), n2, p2)]
        radii = {d["radius"] for d in case["droplets"]}
        nontrivial = n1 >= 2 and len(radii) > 1
        if len(s1) == 1 and len(s2) == 1:
            scale = max([abs(float(x)) for d in case["droplets"] for x in d["position"]] +
                        [float(d["radius"]) for d in case["droplets"]] + [1e-300])
            tol = 1e-12 * max(n1, n2, 1)
            cnt.inc("grouping_comparisons")
            if not rel_close(s1[0].radius, s2[0].radius, tol) or not rel_close(
                    s1[0].position, s2[0].position, tol, scale):
                V.append(Violation(
                    "C11.O6", f"two merge orders over the same droplets end in different droplets: "
                    f"{s1[0].data} vs {s2[0].data}", {"kind": "grouping", "dim": str(dim)}))
    return Outcome(digest=log.digest(), violations=V, counters=cnt, nontrivial=nontrivial,
                   events=log.count, log_head=log.head, coverage_keys=[repr(k) for k in inter])


def evidence_extra(records) -> dict:
    inter = set()
    for r in records:
        inter.update(r["coverage_keys"])
    return {"distinct_interleavings": len(inter), "coverage_cells_list": sorted(inter)[:40]}


def shrink(case: dict):
    ds = case["droplets"]
    if any(d.get("via", "ctor") != "ctor" for d in ds):
        yield {**case, "droplets": [{**d, "via": "ctor"} for d in ds]}
    if len(ds) > 2:
        for i in range(len(ds)):
            yield {**case, "droplets": ds[:i] + ds[i + 1:]}
    for key in ("merges", "merges2"):
        ms = case[key]
        for i in range(len(ms)):
            yield {**case, key: ms[:i] + ms[i + 1:]}
        for i, m in enumerate(ms):
            if m["path"] != "new":
                yield {**case, key: ms[:i] + [{**m, "path": "new"}] + ms[i + 1:]}
            if m["swap"]:
                yield {**case, key: ms[:i] + [{**m, "swap": False}] + ms[i + 1:]}
    for i, d in enumerate(ds):
        if any(x != round(x) for x in d["position"]):
            yield {**case, "droplets": ds[:i] + [{**d, "position": [float(round(x)) for x in d["position"]]}] + ds[i + 1:]}
        if d["radius"] not in (0.0, 1.0, 2.0):
            yield {**case, "droplets": ds[:i] + [{**d, "radius": 1.0}] + ds[i + 1:]}
            yield {**case, "droplets": ds[:i] + [{**d, "radius": 2.0}] + ds[i + 1:]}


def describe(case: dict) -> dict:
    return {"dim": case["dim"], "cls": case["droplets"][0]["cls"],
            "radii": [d["radius"] for d in case["droplets"]],
            "merges": case["merges"][:6], "merges2": case["merges2"][:3]}
