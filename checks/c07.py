"""C07 — tracks follow droplet identity.

Same system and histories as C06, restricted to frames without internal overlap, with
an independent metric in the oracle (own minimum-image distance computed from the box
bounds and periodicity; never SphericalDroplet.overlaps / grid.distance) and margin-aware
three-valued comparisons: a decision quantity closer than MARGIN to its threshold is a
knife edge and the assertions depending on it are skipped (and counted).
"""

from __future__ import annotations

import math

import numpy as np

from simkit import gen, scenes, world
from simkit.core import Counter, EventLog, Outcome, Streams, SutError, Violation

from .c06 import BUILDS, build_etc, run_tracking, tkey

PROPERTY = "C07"
LEVEL = "exploration"
RULE = (
    "Each run = one seeded world history with non-overlapping droplets per frame (motions, "
    "appearances, disappearances, coalescence/splitting, empty/dropped/duplicated frames, "
    "periodic and non-periodic boxes in 1-3D, 20% small-motion histories crossing periodic "
    "boundaries with ground-truth identity) x tracking configurations (both methods, grid "
    "passed or not, cut-offs). Oracles use an independent minimum-image metric and skip "
    "knife-edge comparisons (|quantity - threshold| <= 1e-9 x box size). A run is "
    "non-trivial when some droplet moved between two consecutive non-empty frames or a "
    "track had to start/end; distinct = distinct run digests."
)
INTERLEAVING_MEASURE = "distinct (method, grid?, cut-off class, link pattern per frame pair) tuples"
ASSUMPTIONS = [
    "frames without internal overlap only (the property's precondition)",
    "knife-edge scenes are excluded from the affected assertions, not tolerated",
]
REAL_VS_STUB = {
    "real": ["droplets.DropletTrackList.from_emulsion_time_course", "SphericalDroplet.overlaps",
             "py-pde CartesianGrid.distance", "scipy cdist"],
    "stub": ["observed system: simkit.world; oracle metric: simkit.scenes.grid_metric (own "
             "minimum-image implementation)"],
}
TIERS = {
    "quick": {"runs": 46384, "budget_s": 50, "chunk": 250, "det_pairs": 64, "fresh": 8},
    "thorough": {"runs": 900000, "budget_s": 900, "chunk_timeout": 900, "chunk": 500, "det_pairs": 512, "fresh": 32},
}

LATTICE_FRAMES = {"quick": 3, "thorough": 4}


def generate(streams: Streams, tier: str, index: int) -> dict:
    nf = LATTICE_FRAMES[tier]
    if index < world.lattice_size(nf):
        # exhaustive part: every history of the small 1D lattice space, every configuration
        return {"history": world.lattice_history(index, nf), "configs": list(world.LATTICE_CONFIGS)}
    if index == world.lattice_size(nf):
        # one fixed history on a cylindrical grid that is periodic along z (see known findings)
        return {"probe": "cyl_periodic_z"}
    rng = streams["workload"]
    small = rng.random() < 0.25
    hist = world.random_history(rng, allow_overlap=False, small_motion=small,
                                max_frames=8, max_drops=6)
    crng = streams["config"]
    if crng.random() < 0.06:
        # a time course followed backwards: strictly DEcreasing time stamps (C07 does not ask
        # for increasing ones; every oracle here works on frame indices)
        hist = {**hist, "frames": [{**f, "t": -float(gen.make_time(f["t"]))} for f in hist["frames"]]}
    elif crng.random() < 0.04 and hist["frames"]:
        # integer time stamps that no double can hold exactly (nanosecond epoch counters)
        t0 = crng.choice([2 ** 60, 2 ** 53, 1_790_000_000_000_000_000])
        step = crng.choice([1, 1, 3, 1000])
        hist = {**hist, "frames": [{**f, "t": t0 + 1 + k * step} for k, f in enumerate(hist["frames"])]}
    configs = []
    for _ in range(crng.choice([2, 3, 4])):
        method = crng.choice(["overlap", "distance"])
        cfg = {"method": method, "grid": crng.random() < 0.65}
        if method == "distance":
            cfg["max_dist"] = crng.choice([None, None, "inf", 0, 0.5, 1.0, 2.5, 6.0, 1000.0, -1])
        cfg["build"] = crng.choice(BUILDS)
        cfg["progress"] = crng.random() < 0.1
        if crng.random() < 0.2:
            # the same time course object is tracked again after the caller moved or replaced
            # one of its droplets in place
            cfg["retrack"] = {"frame": crng.randrange(64), "drop": crng.randrange(64),
                              "shift": crng.choice([0.5, 3.0, 30.0, -7.25]),
                              "kind": crng.choice(["move", "replace"])}
        configs.append(cfg)
    return {"history": hist, "configs": configs}


# --------------------------------------------------------------------------- oracle helpers


def tri(value: float, threshold: float, margin: float) -> int:
    """-1: value < threshold, +1: value > threshold, 0: too close to call."""
    if value < threshold - margin:
        return -1
    if value > threshold + margin:
        return 1
    return 0


def links_from_tracks(tracks, frame_keys):
    """Map (frame index f, droplet index in frame f) -> (f-1, index) or None (track start).

    Droplets are located by their exact time stamp, class and bits; a droplet whose stamp is
    not the stamp of any frame (that is C06's business) is located by class and bits alone.
    Returns None when a droplet cannot be located uniquely (duplicates): caller skips.
    """
    links = {}
    for tr in tracks:
        prev = None
        for t, d in zip(tr.times, tr.droplets):
            key = (tkey(t), type(d).__name__, d.data.tobytes())
            loc = frame_keys.get(key)
            if loc is None:
                loc = frame_keys.get((None,) + key[1:])
            if loc is None or len(loc) != 1:
                return None
            cur = loc[0]
            links[cur] = prev
            prev = cur
    return links


def _execute_cyl_probe() -> Outcome:
    """An on-axis droplet that moves across the periodic z boundary of a cylindrical grid:
    z = 1 -> z = 15.5 in a cylinder of length 16, radius 2.  Under the periodic metric the two
    positions are 1.5 apart: the droplets overlap and must form one track (overlap method) and
    are within a cut-off of 3 (distance method)."""
    import droplets as dr
    from pde import CylindricalSymGrid

    log, cnt, V = EventLog(), Counter(), []
    grid = CylindricalSymGrid(8, [0, 16], [8, 16], periodic_z=True)
    frames = [[0.0, 0.0, 1.0], [0.0, 0.0, 15.5]]
    for method, kw in (("overlap", {}), ("distance", {"max_dist": 3.0})):
        etc = dr.EmulsionTimeCourse([dr.Emulsion([dr.SphericalDroplet(p, 2.0)]) for p in frames],
                                    times=[0, 1])
        try:
            tracks = dr.DropletTrackList.from_emulsion_time_course(etc, method=method, grid=grid, **kw)
        except Exception as exc:
            log.add("cyl_probe_raised", exc=SutError(exc).text)
            cnt.inc("probe.tracking_raised")
            continue
        shape = sorted(len(t) for t in tracks)
        log.add("cyl_probe", method=method, tracks=shape)
        cnt.inc("cyl_probe_calls")
        if shape != [2]:
            V.append(Violation(
                "C07.O3" if method == "overlap" else "C07.O5",
                f"periodic cylindrical grid: a droplet moving from z=1 to z=15.5 (1.5 apart across "
                f"the periodic boundary of a cylinder of length 16) was not followed by "
                f"{method} matching: track lengths {shape}",
                {"kind": "cyl_periodic_z", "method": method, "grid": "True"}))
    return Outcome(digest=log.digest(), violations=V, counters=cnt, events=log.count,
                   log_head=log.head, coverage_keys=["('cyl_periodic_z',)"])


def execute(case: dict) -> Outcome:
    if case.get("probe") == "cyl_periodic_z":
        return _execute_cyl_probe()
    log = EventLog()
    cnt = Counter()
    violations: list[Violation] = []
    hist = case["history"]
    frames, box = hist["frames"], hist["box"]
    size = max(hi - lo for lo, hi in box["bounds"])
    margin = 1e-9 * size
    counts = [len(f["droplets"]) for f in frames]
    log.add("history", dim=len(box["bounds"]), counts=counts, periodic=box["periodic"],
            small=hist.get("small_motion"), cam=hist.get("camera_faults", []))
    for k in hist.get("camera_faults", []):
        cnt.inc(f"fault.{k}")
    if not world.frames_overlap_free(frames, box, margin):
        cnt.inc("knife_edge_rejected.frame_overlap")
        return Outcome(digest=log.digest(), counters=cnt, events=log.count, log_head=log.head)
    inter = []
    moved_any = False
    passes = []
    for cfg in case["configs"]:
        etc = build_etc(frames, cfg.get("build", "ctor"))
        passes.append((cfg, etc, frames, False))
        if cfg.get("retrack") and any(len(e) for e in etc.emulsions):
            passes.append((cfg, etc, None, True))
    small_motion = hist.get("small_motion")
    for cfg, etc, frames, second in passes:
        if second:
            # first tracking done (previous pass): edit the live object in place, track again
            rt = cfg["retrack"]
            nonempty = [k for k, e in enumerate(etc.emulsions) if len(e)]
            if not nonempty:
                continue  # the first pass emptied the caller's time course (C06's business)
            k = nonempty[rt["frame"] % len(nonempty)]
            em = etc.emulsions[k]
            i = rt["drop"] % len(em)
            pos = np.array(em[i].position, dtype=float)
            pos[0] += rt["shift"]
            if rt["kind"] == "move":
                em[i].position = pos
            else:
                new = em[i].copy()
                new.position = pos
                em[i] = new
            frames = [{**f0, "droplets": [scenes.droplet_spec(d) for d in e]}
                      for f0, e in zip(hist["frames"], etc.emulsions)]
            if not world.frames_overlap_free(frames, box, margin):
                cnt.inc("knife_edge_rejected.retrack_overlap")
                continue
            cnt.inc("retrack_passes")
        sig_cfg = {"method": cfg["method"], "grid": str(bool(cfg.get("grid")))}
        try:
            tracks = run_tracking(etc, cfg, box)
        except Exception as exc:
            err = SutError(exc)
            cnt.inc("probe.tracking_raised")  # crash-freedom is C06/C09's business
            log.add("raised", cfg=cfg, exc=err.text)
            continue
        cnt.inc("tracking_calls")
        dist = scenes.grid_metric(box if cfg.get("grid") else None)
        frame_keys: dict = {}
        for fi, (t, em) in enumerate(zip(etc.times, etc.emulsions)):
            for di, d in enumerate(em):
                for tk in (tkey(t), None):
                    frame_keys.setdefault((tk, type(d).__name__, d.data.tobytes()), []).append((fi, di))
        links = links_from_tracks(tracks, frame_keys)
        if links is None:
            cnt.inc("probe.unlocatable_droplets")
            continue
        log.add("links", cfg=cfg, links=sorted([list(k), list(v) if v else None] for k, v in links.items()))
        md = cfg.get("max_dist")
        cutoff = math.inf if md in (None, "inf") else float(md)
        if cfg["method"] == "overlap":
            # O2 also for droplets that are in no track at all: one that overlaps nothing in the
            # previous frame (or has no previous frame) must START a track
            for fi, fr in enumerate(frames):
                for j, c in enumerate(fr["droplets"]):
                    if (fi, j) in links:
                        continue
                    prev = frames[fi - 1]["droplets"] if fi else []
                    if all(tri(dist(p["position"], c["position"]), p["radius"] + c["radius"],
                               margin) == 1 for p in prev):
                        violations.append(Violation(
                            "C07.O2", f"frame {fi}: droplet {j} overlaps no droplet of the previous "
                            f"frame but starts no track (it is in no track at all)",
                            {**sig_cfg, "kind": "no_track_started"}))
                        break
        pattern = []
        for f in range(1, len(frames)):
            prev, cur = frames[f - 1]["droplets"], frames[f]["droplets"]
            D = [[dist(p["position"], c["position"]) for c in cur] for p in prev]
            if any(D[i][j] > margin for i in range(len(prev)) for j in range(len(cur))
                   if frames[f - 1]["ids"][i] == frames[f]["ids"][j]):
                moved_any = True
            link_pairs = {(v[1], k[1]) for k, v in links.items()
                          if k[0] == f and v is not None and v[0] == f - 1}
            bad_far = [(k, v) for k, v in links.items() if k[0] == f and v is not None and v[0] != f - 1]
            if bad_far:
                violations.append(Violation(
                    "C07.O1", f"a track links frame {bad_far[0][1][0]} directly to frame {f}",
                    {**sig_cfg, "kind": "skip_frame"}))
                continue
            pattern.append((len(prev), len(cur), len(link_pairs)))
            if cfg["method"] == "overlap":
                violations.extend(_check_overlap(f, prev, cur, D, link_pairs, margin, sig_cfg, cnt))
            else:
                violations.extend(_check_distance(f, prev, cur, D, link_pairs, cutoff, margin,
                                                  sig_cfg, cnt))
        # O7: small-motion histories keep ground-truth identity
        if small_motion and not second and (cfg.get("grid") or not any(box["periodic"])) and (
                cfg["method"] == "overlap" or cutoff == math.inf):
            cnt.inc("identity_histories_checked")
            ok = True
            for f in range(1, len(frames)):
                for j, idj in enumerate(frames[f]["ids"]):
                    want = None
                    if idj in frames[f - 1]["ids"]:
                        want = (f - 1, frames[f - 1]["ids"].index(idj))
                    if links.get((f, j)) != want:
                        ok = False
            if not ok:
                violations.append(Violation(
                    "C07.O7", "droplets moving less than their separation did not keep their "
                    f"identity ({cfg}, periodic={box['periodic']})",
                    {**sig_cfg, "kind": "identity",
                     "periodic": str(any(box["periodic"]))}))
            if any(box["periodic"]) and _crossed_boundary(frames, box):
                cnt.inc("probe.identity_across_periodic_boundary")
        inter.append((cfg["method"], bool(cfg.get("grid")),
                      "inf" if cutoff == math.inf else "zero" if cutoff == 0 else "finite",
                      tuple(pattern)))
    nontrivial = moved_any or any(a != b for a, b in zip(counts, counts[1:]))
    return Outcome(digest=log.digest(), violations=violations, counters=cnt,
                   nontrivial=nontrivial and len(frames) >= 2, events=log.count,
                   log_head=log.head, coverage_keys=[repr(k) for k in inter])


def _crossed_boundary(frames, box) -> bool:
    for a, b in zip(frames, frames[1:]):
        for i, ida in enumerate(a["ids"]):
            if ida in b["ids"]:
                pa, pb = a["droplets"][i]["position"], b["droplets"][b["ids"].index(ida)]["position"]
                for x, y, (lo, hi), per in zip(pa, pb, box["bounds"], box["periodic"]):
                    if per and abs(x - y) > (hi - lo) / 2:
                        return True
    return False


def _check_overlap(f, prev, cur, D, link_pairs, margin, sig, cnt):
    out = []
    n, m = len(prev), len(cur)
    rel = [[tri(D[i][j], prev[i]["radius"] + cur[j]["radius"], margin) for j in range(m)]
           for i in range(n)]  # -1 overlap, +1 apart, 0 knife edge
    # O1: linked droplets overlap
    for i, j in link_pairs:
        if rel[i][j] == 1:
            out.append(Violation(
                "C07.O1", f"frame {f}: linked droplets do not overlap (distance {D[i][j]:.6g}, "
                f"radii {prev[i]['radius']}+{cur[j]['radius']})", {**sig, "kind": "link_without_overlap"}))
        elif rel[i][j] == 0:
            cnt.inc("knife_edge_rejected.overlap")
    # O2: a droplet overlapping nothing in the previous frame starts a new track
    for j in range(m):
        if all(rel[i][j] == 1 for i in range(n)):
            if any(jj == j for _, jj in link_pairs):
                out.append(Violation(
                    "C07.O2", f"frame {f}: droplet {j} overlaps no droplet of the previous frame "
                    f"but continues a track", {**sig, "kind": "continued_without_overlap"}))
    # O3: one-to-one relation => links are exactly the relation
    if any(rel[i][j] == 0 for i in range(n) for j in range(m)):
        cnt.inc("knife_edge_rejected.overlap_relation")
        return out
    rows = [sum(1 for j in range(m) if rel[i][j] == -1) for i in range(n)]
    cols = [sum(1 for i in range(n) if rel[i][j] == -1) for j in range(m)]
    if all(r <= 1 for r in rows) and all(c <= 1 for c in cols):
        want = {(i, j) for i in range(n) for j in range(m) if rel[i][j] == -1}
        cnt.inc("one_to_one_frame_pairs")
        if want != link_pairs:
            out.append(Violation(
                "C07.O3", f"frame {f}: overlap relation is one-to-one {sorted(want)} but the "
                f"tracks link {sorted(link_pairs)}", {**sig, "kind": "relation_mismatch"}))
    else:
        cnt.inc("probe.multi_overlap_frame_pairs")
    return out


def _check_distance(f, prev, cur, D, link_pairs, cutoff, margin, sig, cnt):
    out = []
    n, m = len(prev), len(cur)
    # O4: linked droplets are within the cut-off
    for i, j in link_pairs:
        c = tri(D[i][j], cutoff, margin) if cutoff != math.inf else -1
        if c == 1:
            out.append(Violation(
                "C07.O4", f"frame {f}: linked droplets are {D[i][j]:.6g} apart, cut-off {cutoff}",
                {**sig, "kind": "link_beyond_cutoff"}))
    # each droplet/track is used at most once
    if len({i for i, _ in link_pairs}) != len(link_pairs) or len({j for _, j in link_pairs}) != len(link_pairs):
        out.append(Violation("C07.O6", f"frame {f}: a droplet or track is linked twice: "
                             f"{sorted(link_pairs)}", {**sig, "kind": "double_link"}))
        return out
    # O5: no ended track and new track within the cut-off of each other
    ended = [i for i in range(n) if all(i != a for a, _ in link_pairs)]
    started = [j for j in range(m) if all(j != b for _, b in link_pairs)]
    for i in ended:
        for j in started:
            c = -1 if cutoff == math.inf else tri(D[i][j], cutoff, margin)
            if c == -1:
                out.append(Violation(
                    "C07.O5", f"frame {f}: a track ends and a new one starts {D[i][j]:.6g} apart, "
                    f"within the cut-off {cutoff}", {**sig, "kind": "unmatched_within_cutoff"}))
            elif c == 0:
                cnt.inc("knife_edge_rejected.cutoff")
    # O6: all distances distinct => links of the reference greedy closest-pair matcher
    flat = sorted((D[i][j], i, j) for i in range(n) for j in range(m))
    distinct = all(b[0] - a[0] > margin for a, b in zip(flat, flat[1:]))
    clear_cut = cutoff == math.inf or all(tri(d, cutoff, margin) != 0 for d, _, _ in flat)
    if not (distinct and clear_cut):
        cnt.inc("knife_edge_rejected.distance_ties")
        return out
    used_i, used_j, want = set(), set(), set()
    for d, i, j in flat:
        if d > cutoff:
            break
        if i not in used_i and j not in used_j:
            used_i.add(i)
            used_j.add(j)
            want.add((i, j))
    cnt.inc("greedy_frame_pairs")
    if want != link_pairs:
        out.append(Violation(
            "C07.O6", f"frame {f}: closest-pair matching gives {sorted(want)} but the tracks "
            f"link {sorted(link_pairs)}", {**sig, "kind": "greedy_mismatch"}))
    return out


def evidence_extra(records) -> dict:
    inter = set()
    rejected = 0
    for r in records:
        inter.update(r["coverage_keys"])
        rejected += sum(v for k, v in r["counters"].items() if k.startswith("knife_edge_rejected"))
    return {"distinct_interleavings": len(inter), "knife_edge_rejected": rejected,
            "coverage_cells_list": sorted(inter)[:40]}


from .c06 import describe as _describe06, shrink as _shrink06  # noqa: E402  (same case structure)


def describe(case: dict) -> dict:
    return dict(case) if "probe" in case else _describe06(case)


def shrink(case: dict):
    if "probe" in case:
        return iter(())
    return _shrink06(case)
