"""C15 — results do not depend on the number of worker processes or on scheduling.

System: locate_droplets(refine=True, num_processes=n) -> refine_droplets,
EmulsionTimeCourse.from_storage(num_processes=n), DropletTrackList.from_storage, all on
the simulated process pool (simkit.simexec).  Each case holds one input and a list of
explicit schedules (worker count, completion-choice list, optional worker crash).
"""

from __future__ import annotations

import copy
import random

import numpy as np

from simkit import scenes, simexec
from simkit.core import Counter, EventLog, Outcome, Streams, SutError, Violation, data_hash

PROPERTY = "C15"
LEVEL = "exploration"
RULE = (
    "Each run = one seeded input (rendered scene or 1-8 frame storage, option swarm) "
    "x a list of explicit schedules on the simulated pool (worker count in "
    "{1,2,3,4,5,8,16,auto}, completion-choice list, optional worker crash). All "
    "completion orders reachable with n workers are enumerated when the call has <= 4 "
    "tasks, otherwise a seeded sample biased to reverse/straggler orders. A run is "
    "non-trivial when at least one schedule completed tasks in a non-submission order "
    "or injected a worker crash; distinct = distinct run digests."
)
INTERLEAVING_MEASURE = "distinct (system, tasks, workers, completion order, crash step) tuples"
ASSUMPTIONS = [
    "the process pool is simulated in-process (pickling boundary kept); real OS "
    "scheduling is not exercised except in the thorough cross-check configuration",
    "bit-identity is asserted within one interpreter on one machine",
]
REAL_VS_STUB = {
    "real": ["droplets.* from the working tree", "numpy/scipy least_squares, ndimage.label",
             "py-pde grids/fields/MemoryStorage", "concurrent.futures.Executor.map logic"],
    "stub": ["ProcessPoolExecutor -> simkit.simexec.SimPool (single-threaded, explicit "
             "completion order, pickles every task and result); a small share of runs "
             "(counter real_pool_calls) additionally uses the REAL ProcessPoolExecutor with "
             "delayed tasks as a cross-check"],
}
TIERS = {
    "quick": {"runs": 480, "budget_s": 60, "chunk": 6, "det_pairs": 32, "fresh": 4},
    "thorough": {"runs": 12000, "budget_s": 900, "chunk_timeout": 900, "chunk": 8, "det_pairs": 384, "fresh": 24},
}

WORKER_CHOICES = [1, 2, 2, 3, 3, 4, 5, 8, 16, "auto"]


# --------------------------------------------------------------------------- generation


def _gen_grid(rng: random.Random) -> dict:
    r = rng.random()
    if r < 0.62:
        return scenes.random_cart_grid(rng, dim=2, max_cells=1024, min_n=12)
    if r < 0.74:
        return scenes.random_cart_grid(rng, dim=1, min_n=24)
    if r < 0.88:
        return scenes.random_cart_grid(rng, dim=3, max_cells=1728, min_n=8)
    return scenes.random_cyl_grid(rng, max_cells=500)


def _gen_frame(rng: random.Random, grid: dict, nmax: int) -> dict:
    if grid["kind"] == "cart":
        n = rng.choice([0, 1, 2, 2, 3, 3, 4, 4, 5, 6, 7][: nmax + 4])
        n = min(n, nmax)
        dim = len(grid["shape"])
        rmax = {1: 4.0, 2: 4.0, 3: 3.0}[dim]
        drops = scenes.random_separated_droplets(
            rng, grid, n, rmin=1.5, rmax=rmax, gap=1.25,
            cls_choices=("DiffuseDroplet", "DiffuseDroplet", "SphericalDroplet"))
    else:
        # on-axis droplets on a cylindrical grid
        z0, z1 = grid["bounds_z"]
        drops = []
        n = rng.choice([0, 1, 1, 2, 3])
        for _ in range(n):
            for _t in range(30):
                r = scenes.q(rng.uniform(1.5, min(3.5, grid["radius"] - 1)))
                z = scenes.q(rng.uniform(z0 + r + 1, z1 - r - 1)) if z1 - z0 > 2 * r + 2 else None
                if z is None:
                    continue
                if all(abs(z - o["position"][2]) > r + o["radius"] + 1.5 for o in drops):
                    drops.append({"cls": "DiffuseDroplet", "position": [0.0, 0.0, z],
                                  "radius": r, "interface_width": rng.choice([None, 1.0])})
                    break
    if drops and rng.random() < 0.25:
        # droplets of different composition: every droplet has its own plateau intensity
        for d in drops:
            d["intensity"] = rng.choice([0.75, 1.0, 1.25, 1.5, 2.0])
    frame = {"grid": grid, "droplets": drops}
    # (noise only on frames with droplets: a noise-only frame under a data-dependent threshold
    # is hundreds of one-cell candidates, each of them a least-squares fit per schedule)
    if rng.random() < 0.3 and drops:
        frame["noise"] = {"seed": rng.randrange(1 << 30), "amp": rng.choice([0.01, 0.05, 0.1])}
    if rng.random() < 0.12:
        frame["affine"] = [rng.choice([0.0, -1.0, 0.25]), rng.choice([1.0, 2.0, 0.5])]
    return frame


def _gen_options(rng: random.Random, grid: dict) -> dict:
    dim = scenes.grid_dim(grid)
    opts: dict = {"threshold": rng.choice([0.5, 0.5, 0.5, "auto", "extrema", "mean", "otsu",
                                           0.4, 0.625]),
                  "minimal_radius": rng.choice([0, 0, 0, 0.5, 1.0, 2.0])}
    lsp_choices = [{}, {"max_nfev": 12}, {"max_nfev": 3}, {"xtol": 1e-2, "ftol": 1e-2},
                   {"loss": "soft_l1"}, {"method": "dogbox"}, {"method": "dogbox", "max_nfev": 20},
                   {"method": "trf", "x_scale": "jac"}]
    if rng.random() < 0.5:
        ra = rng.choice([None, None, {}, {"vmin": None, "vmax": None}, {"adjust_values": True},
                         {"tolerance": 1e-3}, {"tolerance": 1e-2, "vmin": None},
                         {"least_squares_params": {"max_nfev": 12}},
                         {"least_squares_params": {"max_nfev": 3}},
                         {"least_squares_params": {"xtol": 1e-2, "ftol": 1e-2}},
                         {"least_squares_params": {"loss": "soft_l1"}, "vmin": None},
                         {"least_squares_params": {"method": "dogbox"}},
                         {"least_squares_params": {"method": "dogbox", "max_nfev": 20}, "vmax": None},
                         {"least_squares_params": {"method": "trf", "x_scale": "jac"}}])
    else:
        # every documented refinement option drawn independently of the others (the options of a
        # script are a caller-owned dict, possibly empty, possibly holding nested dicts)
        ra = {}
        if rng.random() < 0.4:
            ra["vmin"] = rng.choice([None, None, 0.0])
        if rng.random() < 0.4:
            ra["vmax"] = rng.choice([None, None, 1.0])
        if rng.random() < 0.45:
            ra["adjust_values"] = rng.choice([True, True, False])
        if rng.random() < 0.25:
            ra["tolerance"] = rng.choice([1e-3, 1e-2])
        if rng.random() < 0.6:
            ra["least_squares_params"] = rng.choice(lsp_choices)
    opts["refine_args"] = copy.deepcopy(ra)
    modes = 0
    if dim == 2 and grid["kind"] == "cart" and rng.random() < 0.25:
        modes = rng.choice([1, 2, 2, 4])
    elif dim == 3 and grid["kind"] == "cart" and rng.random() < 0.1:
        modes = rng.choice([1, 3])
    opts["modes"] = modes
    if modes and (opts["refine_args"] is None or "least_squares_params" not in opts["refine_args"]):
        opts["refine_args"] = dict(opts["refine_args"] or {})
        opts["refine_args"]["least_squares_params"] = {"max_nfev": 15}
    if rng.random() < 0.2:
        opts["interface_width"] = rng.choice([0.5, 1.0, 2.0])
    return opts


def gen_schedules(rng: random.Random, tasks: int, n_sample: int, crash_rate: float,
                  workers_pool=WORKER_CHOICES) -> list[dict]:
    """Schedules for a call with (expected) `tasks` tasks."""
    out = []
    n_workers_variants = rng.sample(workers_pool, k=rng.choice([1, 2, 2, 3]))
    for nw in dict.fromkeys(n_workers_variants):
        auto = rng.randint(1, 16)
        eff = auto if nw == "auto" else nw
        if 0 < tasks <= 4:
            allo = simexec.reachable_orders(tasks, eff)
            rng.shuffle(allo)
            for choices, order in allo:
                out.append({"workers": nw, "auto_workers": auto, "choices": choices,
                            "crash_at": None, "label": "exhaustive"})
        else:
            T = max(tasks, 1)
            cands = [("fifo", [0]), ("reverse", [15]),
                     ("last_first", [15] + [0] * T), ("first_last", [1] * T)]
            for p in range(min(T, 3)):
                # straggler: task p is never chosen while another task is running
                cands.append((f"straggler{p}", None))
            for _ in range(n_sample):
                cands.append(("random", [rng.randrange(16) for _ in range(T)]))
            rng.shuffle(cands)
            for label, ch in cands[:n_sample]:
                if ch is None:
                    p = int(label[len("straggler"):])
                    ch = _straggler_choices(T, eff, p)
                out.append({"workers": nw, "auto_workers": auto, "choices": ch,
                            "crash_at": None, "label": label})
    # fault-injecting configuration: worker crash at some completion step
    if rng.random() < crash_rate:
        for _ in range(rng.choice([1, 2])):
            nw = rng.choice(workers_pool)
            T = max(tasks, 1)
            out.append({"workers": nw, "auto_workers": rng.randint(1, 16),
                        "choices": [rng.randrange(16) for _ in range(T)],
                        "crash_at": rng.randrange(T), "label": "crash"})
    return out


def _straggler_choices(tasks: int, workers: int, p: int) -> list[int]:
    running: list[int] = []
    nxt, ch = 0, []
    while True:
        while nxt < tasks and len(running) < workers:
            running.append(nxt)
            nxt += 1
        if not running:
            return ch or [0]
        cand = [t for t in running if t != p] or running
        t = cand[0]
        ch.append(running.index(t))
        running.remove(t)


def generate(streams: Streams, tier: str, index: int) -> dict:
    rng = streams["workload"]
    srng = streams["schedule"]
    frng = streams["faults"]
    system = rng.choice(["locate", "locate", "locate", "refine", "from_storage",
                         "from_storage", "tracks_from_storage"])
    grid = _gen_grid(rng)
    opts = _gen_options(rng, grid)
    n_sample = 5 if tier == "quick" else 10
    live_field = None
    if system in ("locate", "refine"):
        frame = _gen_frame(rng, grid, 7)
        frames, times = [frame], [0]
        tasks = len(frame["droplets"])
        if system == "locate" and rng.random() < 0.5:
            # the field object stays alive and is updated in place (as a solver does with its
            # state) between two parallel analyses
            live_field = [_gen_frame(rng, grid, 5) for _ in range(rng.choice([1, 1, 2]))]
        if system == "refine":
            opts.pop("threshold", None)
            opts.pop("minimal_radius", None)
            opts.pop("interface_width", None)
            opts["perturb"] = rng.choice([0.0, 0.25, 0.5])
            opts["shuffle_seed"] = rng.randrange(1 << 30)
            # hand-made candidates: centred exactly on a support point of the grid and, for the
            # perturbed models, with non-zero amplitudes
            opts["snap"] = rng.random() < 0.3
            d3 = grid["kind"] == "cart" and scenes.grid_dim(grid) == 3
            if grid["kind"] == "cart" and scenes.grid_dim(grid) in (2, 3) and \
                    rng.random() < (0.6 if d3 else 0.3):
                opts["snap"] = opts["snap"] or (d3 and rng.random() < 0.6)
                opts["modes"] = rng.choice([1, 2, 3])
                opts["cand_amps"] = [scenes.q(rng.uniform(-0.2, 0.2)) for _ in range(opts["modes"])]
                ra0 = dict(opts.get("refine_args") or {})
                ra0.setdefault("least_squares_params", {"max_nfev": 10})
                opts["refine_args"] = ra0
    else:
        nf = rng.choice([1, 2, 3, 3, 4, 5, 6, 8])
        frames = [_gen_frame(rng, grid, 4) for _ in range(nf)]
        t, times = rng.choice([0, 0, -2.5, 10]), []
        # a storage may hold repeated or non-monotonic time stamps (a continued or restarted
        # run stored into the same storage): the frames are still a sequence
        tmode = rng.choice(["inc", "inc", "inc", "dup", "restart", "equal"])
        for k in range(nf):
            times.append(t)
            if tmode == "inc":
                t = t + rng.choice([1, 1, 0.5, 2.25, 3])
            elif tmode == "dup":
                t = t + rng.choice([0, 0, 1, 0.5])
            elif tmode == "restart":
                t = times[0] if k == nf // 2 else t + rng.choice([1, 0.5])
        tasks = nf
        opts["refine"] = rng.random() < 0.5
        # the progress display must not change what is returned (serial or with workers)
        opts["progress"] = rng.choice([False, False, True, None])
        if system == "tracks_from_storage":
            for k in ("threshold", "minimal_radius", "modes", "refine_args", "interface_width"):
                opts.pop(k, None)
            opts["method"] = rng.choice(["overlap", "distance"])
    if rng.random() < 0.15:
        # single-precision fields: every path must analyse the very same numbers
        # (or integer / boolean images: what a worker sees must still be the very same numbers)
        dt = rng.choice(["float32", "float32", "float32", "uint8", "int64", "bool"])
        for f in frames + (live_field or []):
            f["dtype"] = dt
    if system == "refine":
        # the candidates may come in any iterable, also a one-shot one
        opts["cands_as"] = rng.choice(["list", "list", "tuple", "generator", "emulsion", "iter"])
        opts["duplicates"] = rng.choice([0, 0, 0, 1, 2])
    case = {"system": system, "frames": frames, "times": times, "options": opts,
            "schedules": gen_schedules(srng, tasks, n_sample, 0.35), "tasks_expected": tasks}
    if live_field:
        case["live_field"] = live_field
    # cross-check configuration: the same input under the REAL process pool with per-task
    # delays that let later tasks finish first (order-insensitive oracle, never a false alarm)
    if index % (60 if tier == "quick" else 12) == 7:
        case["real_pool"] = {"workers": srng.choice([2, 3, "auto"]), "delay_ms": srng.choice([20, 60])}
    return case


# --------------------------------------------------------------------------- execution


def _result_fingerprint(system: str, res) -> list:
    if system in ("locate", "refine"):
        return [[type(d).__name__, str(d.data.dtype), data_hash(d.data)] for d in res]
    if system == "from_storage":
        return [[repr(t), [[type(d).__name__, data_hash(d.data)] for d in e]]
                for t, e in zip(res.times, res.emulsions)] + [len(res.times), len(res.emulsions)]
    return [[[repr(t) for t in tr.times],
             [[type(d).__name__, data_hash(d.data)] for d in tr.droplets]] for tr in res]


def _build_call(case: dict, share_inputs: bool = False):
    """Return a function call(num_processes) building fresh inputs each time (or, with
    `share_inputs`, passing the very same field/storage objects to every call)."""
    from pde import MemoryStorage

    import droplets
    from droplets.image_analysis import locate_droplets, refine_droplets

    system, opts = case["system"], dict(case["options"])
    progress = opts.pop("progress", False)
    fields = [scenes.render(f) for f in case["frames"]]

    def quiet(fn):
        if progress is False:
            return fn()
        import contextlib
        import io

        with contextlib.redirect_stderr(io.StringIO()):
            return fn()
    shared_storage = [MemoryStorage.from_fields(list(case["times"]), [f.copy() for f in fields])] \
        if share_inputs and system in ("from_storage", "tracks_from_storage") else [None]

    if system == "locate":
        shared_kw = {k: copy.deepcopy(v) for k, v in opts.items()}

        def call(n):
            # with share_inputs the caller's option objects (nested dicts) are reused too
            kw = shared_kw if share_inputs else {k: copy.deepcopy(v) for k, v in opts.items()}
            f0 = fields[0] if share_inputs else fields[0].copy()
            return locate_droplets(f0, refine=True, num_processes=n, **kw)
    elif system == "refine":
        perturb = opts.pop("perturb", 0.0)
        cands_as = opts.pop("cands_as", "list")

        def container(ds):
            if cands_as == "tuple":
                return tuple(ds)
            if cands_as == "generator":
                return (d for d in ds)
            if cands_as == "iter":
                return iter(ds)
            if cands_as == "emulsion":
                try:
                    return droplets.Emulsion(ds, copy=False)
                except Exception:
                    return ds
            return ds
        shuffle_seed = opts.pop("shuffle_seed", 0)
        snap = opts.pop("snap", False)
        cand_amps = opts.pop("cand_amps", None)
        modes = opts.pop("modes", 0)
        ra = opts.pop("refine_args", None) or {}
        base = locate_droplets(fields[0], 0.5, modes=modes)
        r = random.Random(shuffle_seed)
        cands = []
        for d in base:
            d = d.copy()
            d.position = d.position + perturb * np.array([r.choice([-1, 1]) for _ in d.position])
            if fields[0].grid.__class__.__name__ == "CylindricalSymGrid":
                d.position[:2] = 0
            elif snap:
                d.position = np.array([ax[int(np.argmin(np.abs(ax - x)))] for ax, x in
                                       zip(fields[0].grid.axes_coords, d.position)])
            if cand_amps and hasattr(d, "amplitudes"):
                d.amplitudes = np.array(cand_amps, dtype=float)
            cands.append(d)
        r.shuffle(cands)
        # a candidate list assembled from several detection passes may hold the same droplet
        # twice (equal values, distinct objects)
        for k in range(opts.pop("duplicates", 0)):
            if cands:
                cands.insert(r.randrange(len(cands) + 1), cands[r.randrange(len(cands))].copy())

        shared_ra = copy.deepcopy(ra)

        def call(n):
            f0 = fields[0] if share_inputs else fields[0].copy()
            if share_inputs:
                # the very same field and option dicts every time; the candidates are copied
                # because the serial path refines diffuse candidates in place (C15 does not
                # say whether candidates are preserved, so a mutated candidate list is not
                # "the same input")
                return refine_droplets(f0, container([c.copy() for c in cands]), num_processes=n,
                                       **shared_ra)
            return refine_droplets(f0, container([c.copy() for c in cands]),
                                   num_processes=n, **copy.deepcopy(ra))
    elif system == "from_storage":
        shared_kw = {k: copy.deepcopy(v) for k, v in opts.items()}

        def call(n):
            kw = shared_kw if share_inputs else {k: copy.deepcopy(v) for k, v in opts.items()}
            st = shared_storage[0] if share_inputs else MemoryStorage.from_fields(
                list(case["times"]), [f.copy() for f in fields])
            return quiet(lambda: droplets.EmulsionTimeCourse.from_storage(
                st, num_processes=n, progress=progress, **kw))
    else:
        def call(n):
            st = shared_storage[0] if share_inputs else MemoryStorage.from_fields(
                list(case["times"]), [f.copy() for f in fields])
            return quiet(lambda: droplets.DropletTrackList.from_storage(
                st, method=opts["method"], refine=opts["refine"], num_processes=n,
                progress=progress))
    return call


_ORIG: dict = {}


class _Delayed:
    """Picklable wrapper that sleeps before delegating (real-pool cross-check only)."""

    def __init__(self, name, delay_ms):
        # the original function is looked up by name in a module-level table that forked
        # pool workers inherit (the function itself cannot be pickled while it is patched)
        self.name, self.delay_ms = name, delay_ms

    def __call__(self, *args, **kwargs):
        import time as _time
        import zlib

        key = args[-1] if args else None
        data = getattr(key, "data", None)
        h = zlib.crc32(np.asarray(data).tobytes()) if data is not None else 0
        _time.sleep((h % 3) * self.delay_ms / 1000.0)  # different tasks, different delays
        return _ORIG[self.name](*args, **kwargs)


def _real_pool_crosscheck(case, call, fp0, system, V, cnt, log):
    import droplets.image_analysis as ia

    rp = case["real_pool"]
    orig_refine, orig_locate = ia.refine_droplet, ia.locate_droplets
    _ORIG["refine_droplet"], _ORIG["locate_droplets"] = orig_refine, orig_locate
    ia.refine_droplet = _Delayed("refine_droplet", rp["delay_ms"])
    if system in ("from_storage", "tracks_from_storage"):
        ia.locate_droplets = _Delayed("locate_droplets", rp["delay_ms"])
    try:
        st, res = _guarded(lambda: call(rp["workers"]))
    finally:
        ia.refine_droplet, ia.locate_droplets = orig_refine, orig_locate
    cnt.inc("real_pool_calls")
    if st != "ok":
        V.append(Violation("C15.O1", f"call under the real process pool (workers={rp['workers']}) "
                           f"raised {getattr(res, 'text', res)!r} although the serial call returned",
                           {"system": system, "pool": "real",
                            "exc_type": getattr(res, "exc_type", type(res).__name__)}))
        return
    fp = _result_fingerprint(system, res)
    log.add("real_pool", fp=fp)
    if fp != fp0:
        V.append(Violation("C15.O1", f"result under the real process pool (workers={rp['workers']}, "
                           f"delayed tasks) differs from the serial result: {_diff(fp0, fp)}",
                           {"system": system, "pool": "real", "kind": _diff(fp0, fp).split(':')[0]}))


def _make_canary(case):
    from droplets.image_analysis import locate_droplets

    field = scenes.render(case["frames"][0])

    def canary():
        return locate_droplets(field.copy(), refine=True)

    return canary


def _guarded(fn):
    try:
        return "ok", fn()
    except (simexec.SimDeadlock, simexec.SimStepCap) as exc:
        return "stuck", exc
    except Exception as exc:
        return "exc", SutError(exc)


def execute(case: dict) -> Outcome:
    log = EventLog()
    cnt = Counter()
    violations: list[Violation] = []
    system = case["system"]
    log.add("case", system=system, options=case["options"], nframes=len(case["frames"]))
    call = _build_call(case)

    # canary: a fixed default-option analysis of the first frame, evaluated now and again after
    # all other calls of this run — state leaking between calls must not change its answer
    canary = _make_canary(case)
    st_c, c0 = _guarded(canary)
    canary_fp0 = _result_fingerprint("locate", c0) if st_c == "ok" else None

    st, base = _guarded(lambda: call(1))
    if st != "ok":
        cnt.inc("probe.serial_raised")
        log.add("serial_raised", exc=getattr(base, "text", repr(base)))
        return Outcome(digest=log.digest(), counters=cnt, events=log.count,
                       log_head=log.head, interleaving=None)
    fp0 = _result_fingerprint(system, base)
    log.add("serial", fp=fp0)
    n_items = sum(len(e) for e in base.emulsions) if system == "from_storage" else len(base)
    if n_items > 40:
        # a deterministic cost bound (a function of the result, never of the clock): cases with
        # very many fitted droplets run only their first two schedules
        cnt.inc("probe.heavy_case_truncated")
        case = {**case, "schedules": case["schedules"][:2]}
    cnt.inc("serial_calls")
    cnt.inc(f"system.{system}")
    # O2: run-to-run determinism of the serial path, on fresh copies of the input and on the
    # very same input objects (a cache keyed by object identity must not change the answer)
    st, again = _guarded(lambda: call(1))
    if st != "ok" or _result_fingerprint(system, again) != fp0:
        violations.append(Violation(
            "C15.O2", "repeating the serial analysis on the same input gave a different result",
            {"system": system, "path": "serial"}))
    same = _build_call(case, share_inputs=True)
    fps = []
    for _ in range(3):
        st, r = _guarded(lambda: same(1))
        fps.append(_result_fingerprint(system, r) if st == "ok" else ("raised", getattr(r, "text", str(r))))
    if fps[1] != fps[0] or fps[2] != fps[0]:
        violations.append(Violation(
            "C15.O2", "repeating the serial analysis on the very same input objects gave a "
            "different result", {"system": system, "path": "serial_same_objects"}))
    elif system != "refine" and fps[0] != fp0:
        # (refine_droplets may legitimately refine the caller's candidates in place)
        violations.append(Violation(
            "C15.O2", "analysing the same input objects gave a result different from analysing "
            "fresh copies of them", {"system": system, "path": "serial_same_vs_copy"}))

    inter_keys = []
    nontrivial = False
    sim_seconds = 0.0
    for sc in case["schedules"]:
        n = sc["workers"]
        script = simexec.PoolScript(auto_workers=sc.get("auto_workers", 4),
                                    choices=sc["choices"], crash_at=sc.get("crash_at"),
                                    log=log, counters=cnt)
        log.add("schedule", workers=n, auto=sc.get("auto_workers"), choices=sc["choices"],
                crash_at=sc.get("crash_at"))
        with script:
            st, res = _guarded(lambda: call(n))
        sim_seconds += script.now
        orders = [o for o in script.completion_orders]
        parallel_requested = n != 1
        if parallel_requested and script.submits == 0 and not script.pools:
            cnt.inc("seam_bypassed")
        crashed = script.crashed
        for o in orders:
            if o != sorted(o):
                nontrivial = True
                cnt.inc("schedules_out_of_order")
        if crashed:
            nontrivial = True
        inter_keys.append((system, script.submits, n if n != "auto" else f"auto{sc.get('auto_workers')}",
                           tuple(tuple(o) for o in orders), sc.get("crash_at") if crashed else None))
        cnt.inc("parallel_calls")
        if st == "stuck":
            violations.append(Violation(
                "C15.O4", f"parallel call did not return: {res!r} (workers={n})",
                {"system": system, "exc_type": type(res).__name__}))
            log.add("stuck", err=repr(res))
            continue
        if st == "exc":
            log.add("raised", exc=res.text, crashed=crashed)
            if crashed:
                cnt.inc("probe.crash_raised")
                continue  # O3: a crashed pool may raise
            violations.append(Violation(
                "C15.O1", f"parallel call raised {res.text} although the serial call returned "
                f"(workers={n}, orders={orders})",
                {"system": system, "exc_type": res.exc_type, "frame": res.frame}))
            continue
        fp = _result_fingerprint(system, res)
        log.add("parallel", fp=fp, orders=orders)
        if fp != fp0:
            oracle = "C15.O3" if crashed else "C15.O1"
            what = _diff(fp0, fp)
            violations.append(Violation(
                oracle, f"result with workers={n}, completion orders={orders}"
                f"{' after a worker crash' if crashed else ''} differs from the serial "
                f"result: {what}",
                {"system": system, "kind": what.split(":")[0]}))
        elif crashed:
            cnt.inc("probe.crash_returned_equal")
    # O2 for the parallel path: same schedule twice
    if case["schedules"] and not violations:
        sc = case["schedules"][0]
        outs = []
        for _ in range(2):
            script = simexec.PoolScript(auto_workers=sc.get("auto_workers", 4),
                                        choices=sc["choices"], crash_at=None,
                                        log=EventLog(), counters=Counter())
            with script:
                st, res = _guarded(lambda: call(sc["workers"]))
            outs.append(_result_fingerprint(system, res) if st == "ok" else ("raised", str(res)))
        if outs[0] != outs[1]:
            violations.append(Violation(
                "C15.O2", "repeating the parallel analysis under the same schedule gave a "
                "different result", {"system": system, "path": "parallel"}))
    if case.get("live_field") and case["schedules"] and not violations:
        _live_field_stage(case, violations, cnt, log)
    if canary_fp0 is not None:
        st_c, c1 = _guarded(canary)
        cnt.inc("canary_repeats")
        if st_c != "ok" or _result_fingerprint("locate", c1) != canary_fp0:
            violations.append(Violation(
                "C15.O2", "repeating a default analysis of the same input after other analyses "
                "had run in between gave a different result (state leaks between calls)",
                {"system": system, "path": "canary"}))
    if case.get("real_pool") and not violations:
        _real_pool_crosscheck(case, call, fp0, system, violations, cnt, log)
    key = data_hash(np.frombuffer(repr(inter_keys).encode(), dtype=np.uint8))
    return Outcome(digest=log.digest(), violations=violations, counters=cnt,
                   sim_time={"pool_seconds": sim_seconds}, interleaving=key,
                   nontrivial=nontrivial, events=log.count, log_head=log.head,
                   coverage_keys=[repr(k) for k in inter_keys][:64])


def _live_field_stage(case, violations, cnt, log):
    """One ScalarField object analysed in parallel, overwritten in place with the next frame
    (what a solver does with its state), and analysed in parallel again: every analysis must
    equal the serial analysis of a fresh field holding the same data."""
    from droplets.image_analysis import locate_droplets

    opts = dict(case["options"])
    sc = case["schedules"][0]
    n = sc["workers"] if sc["workers"] != 1 else 2
    frames = [case["frames"][0]] + list(case["live_field"])
    live = scenes.render(frames[0])
    shared_kw = {k: copy.deepcopy(v) for k, v in opts.items()}
    for k, fr in enumerate(frames):
        data = scenes.render(fr)
        if k:
            live.data[...] = data.data
        st0, want = _guarded(lambda: locate_droplets(
            data, refine=True, num_processes=1, **{k: copy.deepcopy(v) for k, v in opts.items()}))
        if st0 != "ok":
            cnt.inc("probe.serial_raised")
            return
        script = simexec.PoolScript(auto_workers=sc.get("auto_workers", 4), choices=sc["choices"],
                                    crash_at=None, log=log, counters=cnt)
        with script:
            st, res = _guarded(lambda: locate_droplets(live, refine=True, num_processes=n,
                                                       **shared_kw))
        cnt.inc("live_field_calls")
        if st != "ok" or _result_fingerprint("locate", res) != _result_fingerprint("locate", want):
            what = getattr(res, "text", "") if st != "ok" else \
                _diff(_result_fingerprint("locate", want), _result_fingerprint("locate", res))
            violations.append(Violation(
                "C15.O1", f"parallel analysis (workers={n}) of a field object that was analysed "
                f"before and then updated in place differs from the serial analysis of the same "
                f"data (update {k}): {what}", {"system": "locate", "kind": "live_field"}))
            return


def _diff(a, b) -> str:
    if len(a) != len(b):
        return f"length: {len(a)} vs {len(b)}"
    if sorted(map(repr, a)) == sorted(map(repr, b)):
        return "order: same items in a different order"
    bad = [i for i, (x, y) in enumerate(zip(a, b)) if x != y]
    return f"content: items {bad[:6]} differ"


def evidence_extra(records) -> dict:
    inter = set()
    for r in records:
        inter.update(r["coverage_keys"])
    return {"distinct_interleavings": len(inter)}


# --------------------------------------------------------------------------- shrinking


def shrink(case: dict):
    if any(f.get("dtype") for f in case["frames"]):
        yield {**case, "frames": [{k: v for k, v in f.items() if k != "dtype"} for f in case["frames"]],
               "live_field": [{k: v for k, v in f.items() if k != "dtype"} for f in case.get("live_field", [])]}
    if case["options"].get("cands_as", "list") != "list":
        yield {**case, "options": {**case["options"], "cands_as": "list"}}
    if case.get("live_field"):
        yield {k: v for k, v in case.items() if k != "live_field"}
        if len(case["live_field"]) > 1:
            yield {**case, "live_field": case["live_field"][:1]}
    c = case
    # one schedule at a time
    if len(c["schedules"]) > 1:
        for i in range(len(c["schedules"])):
            yield {**c, "schedules": [c["schedules"][i]]}
    # fewer frames
    if len(c["frames"]) > 1:
        for i in range(len(c["frames"])):
            yield {**c, "frames": c["frames"][:i] + c["frames"][i + 1:],
                   "times": c["times"][:i] + c["times"][i + 1:]}
    # fewer droplets per frame / no noise / no affine
    for fi, f in enumerate(c["frames"]):
        for di in range(len(f["droplets"])):
            if len(f["droplets"]) > 2:
                nf = {**f, "droplets": f["droplets"][:di] + f["droplets"][di + 1:]}
                yield {**c, "frames": c["frames"][:fi] + [nf] + c["frames"][fi + 1:]}
        for k in ("noise", "affine"):
            if k in f:
                nf = {kk: vv for kk, vv in f.items() if kk != k}
                yield {**c, "frames": c["frames"][:fi] + [nf] + c["frames"][fi + 1:]}
    # simpler options
    o = c["options"]
    for k, simple in (("refine_args", None), ("modes", 0), ("threshold", 0.5),
                      ("minimal_radius", 0), ("interface_width", None)):
        if k in o and o[k] != simple:
            no = dict(o)
            if simple is None and k == "interface_width":
                no.pop(k)
            else:
                no[k] = simple
            yield {**c, "options": no}
    # simpler schedules
    for si, sc in enumerate(c["schedules"]):
        if sc.get("crash_at") is not None:
            yield {**c, "schedules": c["schedules"][:si] + [{**sc, "crash_at": None}] + c["schedules"][si + 1:]}
        if sc["workers"] not in (2,):
            yield {**c, "schedules": c["schedules"][:si] + [{**sc, "workers": 2}] + c["schedules"][si + 1:]}
        if len(sc["choices"]) > 1:
            for j in range(len(sc["choices"])):
                ch = sc["choices"][:j] + sc["choices"][j + 1:]
                yield {**c, "schedules": c["schedules"][:si] + [{**sc, "choices": ch}] + c["schedules"][si + 1:]}
        if any(x not in (0, 1) for x in sc["choices"]):
            ch = [min(x, 1) for x in sc["choices"]]
            yield {**c, "schedules": c["schedules"][:si] + [{**sc, "choices": ch}] + c["schedules"][si + 1:]}


def describe(case: dict) -> dict:
    return {"system": case["system"], "options": case["options"],
            "frames": [{"grid": f["grid"], "n_droplets": len(f["droplets"]),
                        "noise": f.get("noise")} for f in case["frames"]],
            "times": case["times"],
            "schedules": [{k: s[k] for k in ("workers", "auto_workers", "choices", "crash_at", "label")}
                          for s in case["schedules"][:6]],
            "n_schedules": len(case["schedules"])}
