"""Droplet world and camera: seeded discrete-event histories with ground-truth identity.

The world lives in a Cartesian box (1-3D, any periodicity mask).  Events: nucleate,
drift (with periodic wrap), grow/shrink, dissolve, coalesce (volume-conserving),
split.  The camera samples the world at strictly increasing times and has faults:
outage (frame without droplets), dropped frame, duplicate frame, in-frame shuffle.
All output is explicit JSON (frames with droplet specs and identities).
"""

from __future__ import annotations

import math
import random

import numpy as np

from .scenes import grid_metric, q

Q = 16


def random_box(rng: random.Random, dim: int | None = None) -> dict:
    dim = dim or rng.choice([1, 2, 2, 3])
    bounds, shape = [], []
    for _ in range(dim):
        L = rng.choice([16, 24, 32, 40])
        lo = rng.choice([0.0, 0.0, -L / 2, 3.5])
        bounds.append([lo, lo + L])
        shape.append(8)
    periodic = [rng.random() < 0.6 for _ in range(dim)]
    return {"kind": "cart", "bounds": bounds, "shape": shape, "periodic": periodic}


def wrap(pos: list[float], box: dict) -> list[float]:
    out = []
    for x, (lo, hi), per in zip(pos, box["bounds"], box["periodic"]):
        if per:
            L = hi - lo
            x = lo + ((x - lo) % L)
            if x >= hi:  # guard against rounding
                x = lo
        out.append(x)
    return out


def vol(r: float, dim: int) -> float:
    return {1: 2 * r, 2: math.pi * r * r, 3: 4 / 3 * math.pi * r ** 3}[dim]


def rad(v: float, dim: int) -> float:
    return {1: v / 2, 2: math.sqrt(v / math.pi), 3: (3 * v / (4 * math.pi)) ** (1 / 3)}[dim]


class World:
    def __init__(self, rng: random.Random, box: dict, cls: str, allow_overlap: bool,
                 small_motion: bool):
        self.rng, self.box, self.cls = rng, box, cls
        self.dim = len(box["bounds"])
        self.allow_overlap = allow_overlap
        self.small_motion = small_motion
        self.dist = grid_metric(box)
        self.drops: list[dict] = []
        self.next_id = 0
        self.events: list[str] = []
        self.mixed = False

    # -- helpers
    def _free(self, pos, r, ignore=None, gap=0.25) -> bool:
        if self.allow_overlap:
            return True
        size = [hi - lo for lo, hi in self.box["bounds"]]
        if any(per and 2 * r + gap >= L for per, L in zip(self.box["periodic"], size)):
            return False
        return all(self.dist(pos, d["pos"]) > r + d["r"] + gap
                   for d in self.drops if d is not ignore)

    def _rand_pos(self, r):
        pos = []
        for (lo, hi), per in zip(self.box["bounds"], self.box["periodic"]):
            if per:
                pos.append(q(self.rng.uniform(lo, hi - 1 / Q)))
            else:
                pos.append(q(self.rng.uniform(lo + 0.5, hi - 0.5)))
        return pos

    def nucleate(self) -> bool:
        for _ in range(20):
            r = q(self.rng.uniform(0.5, 4.0))
            if not self.small_motion and self.rng.random() < 0.06:
                r = 0.0  # a vanished droplet is still a droplet of the time course
            pos = self._rand_pos(r)
            if self._free(pos, r):
                self.drops.append({"id": self.next_id, "pos": pos, "r": r,
                                   "w": self.rng.choice([None, 0.5, 1.0])})
                self.next_id += 1
                self.events.append("nucleate")
                return True
        return False

    def min_gap(self, d) -> float:
        others = [self.dist(d["pos"], o["pos"]) - d["r"] - o["r"] for o in self.drops if o is not d]
        return min(others) if others else math.inf

    def drift(self) -> None:
        # limits are taken from the positions at the start of the step, so that every
        # droplet stays closer to its own previous position than to anybody else's
        gaps = {id(d): self.min_gap(d) for d in self.drops} if self.small_motion else {}
        for d in list(self.drops):
            if self.small_motion:
                lim = min(d["r"], gaps[id(d)] / 2, 3.0) * 0.9
                if lim < 2 / Q:
                    continue
            else:
                lim = self.rng.choice([0.5, 1.0, 2.0, 6.0])
            for _ in range(8):
                step = [self.rng.uniform(-1, 1) for _ in range(self.dim)]
                n = math.sqrt(sum(s * s for s in step)) or 1.0
                amp = self.rng.uniform(0, lim)
                new = [q(p + s / n * amp) for p, s in zip(d["pos"], step)]
                moved = math.sqrt(sum((a - b) ** 2 for a, b in zip(new, d["pos"])))
                if self.small_motion and moved >= lim / 0.9 * 0.98:
                    continue
                new = wrap(new, self.box)
                if self._free(new, d["r"], ignore=d):
                    d["pos"] = new
                    break
        self.events.append("drift")

    def grow(self) -> None:
        if not self.drops:
            return
        d = self.rng.choice(self.drops)
        r = max(0.25, q(d["r"] * self.rng.choice([0.5, 0.8, 1.25, 1.5])))
        if self._free(d["pos"], r, ignore=d):
            d["r"] = r
            self.events.append("grow")

    def dissolve(self) -> None:
        if self.drops:
            self.drops.pop(self.rng.randrange(len(self.drops)))
            self.events.append("dissolve")

    def coalesce(self) -> None:
        if len(self.drops) < 2:
            return
        a = self.rng.choice(self.drops)
        b = min((o for o in self.drops if o is not a), key=lambda o: self.dist(a["pos"], o["pos"]))
        va, vb = vol(a["r"], self.dim), vol(b["r"], self.dim)
        # place the merged droplet at the larger one's position (a valid world event;
        # the library's own merge is exercised by C11)
        big = a if va >= vb else b
        r = q(rad(va + vb, self.dim))
        self.drops.remove(a)
        self.drops.remove(b)
        if self._free(big["pos"], r):
            self.drops.append({"id": big["id"], "pos": big["pos"], "r": r, "w": big["w"]})
            self.events.append("coalesce")
        else:
            self.drops.extend([a, b])

    def split(self) -> None:
        if not self.drops:
            return
        d = self.rng.choice(self.drops)
        if d["r"] < 1.5:
            return
        r = q(rad(vol(d["r"], self.dim) / 2, self.dim))
        off = [0.0] * self.dim
        off[self.rng.randrange(self.dim)] = r + 0.5
        p1 = wrap([q(x - o) for x, o in zip(d["pos"], off)], self.box)
        p2 = wrap([q(x + o) for x, o in zip(d["pos"], off)], self.box)
        self.drops.remove(d)
        if self._free(p1, r) and self._free(p2, r) and (
                self.allow_overlap or self.dist(p1, p2) > 2 * r + 0.25):
            self.drops.append({"id": d["id"], "pos": p1, "r": r, "w": d["w"]})
            self.drops.append({"id": self.next_id, "pos": p2, "r": r, "w": d["w"]})
            self.next_id += 1
            self.events.append("split")
        else:
            self.drops.append(d)

    def snapshot(self) -> tuple[list[dict], list[int]]:
        specs, ids = [], []
        for d in self.drops:
            cls = self.cls
            if self.mixed:  # a time course may hold droplets of several classes
                opts = ["SphericalDroplet", "DiffuseDroplet"] + (
                    ["PerturbedDroplet2D"] if self.dim == 2 else []) + (
                    ["PerturbedDroplet3D"] if self.dim == 3 else [])
                cls = opts[d["id"] % len(opts)]
            s = {"cls": cls, "position": list(d["pos"]), "radius": d["r"]}
            if cls != "SphericalDroplet":
                s["interface_width"] = d["w"]
            if cls == "PerturbedDroplet2D":
                s["amplitudes"] = [0.0625, -0.03125]
            if cls == "PerturbedDroplet3D":
                s["amplitudes"] = [0.0625]
            specs.append(s)
            ids.append(d["id"])
        return specs, ids


def gen_times(rng: random.Random, n: int) -> list:
    style = rng.choice(["int", "int", "float", "neg", "irregular", "np", "decimal", "cross_zero",
                        "offset", "tiny"])
    if style == "cross_zero":
        k, step = (rng.randrange(n) if n else 0), rng.choice([0.5, 0.75, 1, 2.5])
        return [(i - k) * step + 0.0 for i in range(n)]
    if style == "offset":  # late in a long run: spacing tiny relative to the time
        t0, step = rng.choice([1e6, 1e9, 123456.0]), rng.choice([1, 1, 0.5])
        return [t0 + i * step for i in range(n)]
    if style == "tiny":
        return [i * 2e-9 for i in range(n)]
    if style == "decimal":
        t0, step = rng.choice([0.1, -3.3, 1 / 3]), rng.choice([0.1, 0.7, 1 / 7])
        return [t0 + i * step for i in range(n)]
    t = {"int": rng.randint(0, 5), "float": q(rng.uniform(0, 3)), "neg": -q(rng.uniform(5, 50)),
         "irregular": q(rng.uniform(-2, 2)), "np": rng.randint(0, 3)}[style]
    out = []
    for _ in range(n):
        out.append({"np": rng.choice(["float64", "int64", "float32"]), "v": t} if style == "np" else t)
        if style in ("int", "np"):
            t = t + rng.randint(1, 3)
        elif style == "irregular":
            t = t + rng.choice([0.0625, 0.5, 1, 7.25])
        else:
            t = t + rng.choice([0.5, 1.0, 0.25])
    return out


def random_history(rng: random.Random, *, allow_overlap: bool, small_motion: bool,
                   max_frames: int = 12, max_drops: int = 8, dim: int | None = None,
                   cls: str | None = None) -> dict:
    box = random_box(rng, dim)
    d = len(box["bounds"])
    if small_motion:
        box["periodic"] = [True] * d if rng.random() < 0.7 else box["periodic"]
    cls = cls or rng.choice(["SphericalDroplet", "SphericalDroplet", "DiffuseDroplet"]
                            + (["PerturbedDroplet2D"] if d == 2 else [])
                            + (["PerturbedDroplet3D"] if d == 3 else []))
    w = World(rng, box, cls, allow_overlap, small_motion)
    w.mixed = rng.random() < 0.1
    if rng.random() < 0.04 and not small_motion:
        max_drops = 20  # an occasional crowded history
    n0 = rng.choice([0, 1, 2, 3, 4, 5, max_drops])
    if small_motion:
        n0 = max(1, n0)
    for _ in range(n0):
        w.nucleate()
    n_frames = rng.choice([0, 1, 2, 3, 4, 5, 6, 8, max_frames])
    if small_motion:
        n_frames = max(2, n_frames)
    weights = {"nucleate": rng.choice([0, 0.2, 0.5]), "dissolve": rng.choice([0, 0.2, 0.4]),
               "grow": rng.choice([0, 0.3]), "coalesce": rng.choice([0, 0, 0.3]),
               "split": rng.choice([0, 0, 0.3])}
    cam = {"outage": rng.choice([0, 0, 0.15, 0.3]), "drop": rng.choice([0, 0.15]),
           "dup": rng.choice([0, 0.15]), "shuffle": rng.choice([0, 0.5])}
    if small_motion:
        weights = dict.fromkeys(weights, 0)
        cam = {"outage": 0, "drop": 0, "dup": rng.choice([0, 0.15]), "shuffle": cam["shuffle"]}
    frames = []
    cam_faults = []
    unwrapped = rng.random() < 0.25 and not small_motion
    while len(frames) < n_frames:
        # world evolves between exposures
        w.drift()
        for ev, p in weights.items():
            if rng.random() < p and (ev != "nucleate" or len(w.drops) < max_drops):
                getattr(w, ev)()
        if rng.random() < cam["drop"]:
            cam_faults.append("dropped_frame")
            continue
        specs, ids = w.snapshot()
        if unwrapped:
            # positions that were not wrapped back into the primary cell (a drifting droplet),
            # and non-dyadic coordinates: equally valid descriptions of the same droplets
            for sp in specs:
                pos = list(sp["position"])
                for ax, ((lo, hi), per) in enumerate(zip(box["bounds"], box["periodic"])):
                    if per and rng.random() < 0.4:
                        pos[ax] = pos[ax] + rng.choice([-1, 1, 2]) * (hi - lo)
                    if rng.random() < 0.2:
                        pos[ax] = pos[ax] + 0.1
                sp["position"] = pos
        if rng.random() < cam["outage"]:
            specs, ids = [], []
            cam_faults.append("outage")
        if specs and rng.random() < cam["shuffle"]:
            order = list(range(len(specs)))
            rng.shuffle(order)
            specs, ids = [specs[i] for i in order], [ids[i] for i in order]
            cam_faults.append("shuffle")
        frames.append({"droplets": specs, "ids": ids})
        if rng.random() < cam["dup"] and len(frames) < n_frames:
            frames.append({"droplets": [dict(s) for s in specs], "ids": list(ids)})
            cam_faults.append("duplicate_frame")
    for f, t in zip(frames, gen_times(rng, len(frames))):
        f["t"] = t
    if unwrapped and frames:
        cam_faults.append("unwrapped_positions")
    return {"box": box, "cls": cls, "frames": frames, "world_events": w.events,
            "camera_faults": cam_faults, "allow_overlap": allow_overlap,
            "small_motion": small_motion}


def frames_overlap_free(frames: list[dict], box: dict | None, margin: float = 1e-9) -> bool:
    """True when no two droplets of any frame overlap (or come within `margin` of it)."""
    dist = grid_metric(box)
    for f in frames:
        ds = f["droplets"]
        for i in range(len(ds)):
            for j in range(i + 1, len(ds)):
                if dist(ds[i]["position"], ds[j]["position"]) <= ds[i]["radius"] + ds[j]["radius"] + margin:
                    return False
    return True


# --------------------------------------------------------------------------- exhaustive lattice


def lattice_size(n_frames: int) -> int:
    """Number of histories in the exhaustive small-lattice space with `n_frames` frames."""
    return (16 ** n_frames) * 2 * 2


def lattice_history(index: int, n_frames: int) -> dict:
    """Decode history `index` of the exhaustive 1D lattice space.

    Box [0, 8); every frame is a subset of 4 sites with spacing 2; odd frames are shifted by
    0.75 so that a droplet sees one candidate 0.75 to the right and one 1.25 to the left in the
    next frame (wrapping around when the box is periodic).  Radius 0.5: only the nearer one
    overlaps (one-to-one relations); radius 0.7: both overlap (multiple overlaps).  No knife
    edges: all decision quantities are at least 0.15 away from their thresholds.
    """
    periodic = bool(index % 2)
    index //= 2
    r = [0.5, 0.7][index % 2]
    index //= 2
    frames = []
    for f in range(n_frames):
        mask = index % 16
        index //= 16
        shift = 0.75 if f % 2 else 0.0
        drops, ids = [], []
        for s in range(4):
            if mask >> s & 1:
                drops.append({"cls": "SphericalDroplet", "position": [1.0 + 2 * s + shift], "radius": r})
                ids.append(100 * f + s)  # no ground-truth identity on the lattice
        frames.append({"droplets": drops, "ids": ids, "t": f})
    box = {"kind": "cart", "bounds": [[0.0, 8.0]], "shape": [8], "periodic": [periodic]}
    return {"box": box, "cls": "SphericalDroplet", "frames": frames, "world_events": [],
            "camera_faults": [], "allow_overlap": False, "small_motion": False, "lattice": True}


LATTICE_CONFIGS = [
    {"method": "overlap", "grid": True}, {"method": "overlap", "grid": False},
    {"method": "distance", "grid": True}, {"method": "distance", "grid": False},
    {"method": "distance", "grid": True, "max_dist": 1.0},
    {"method": "distance", "grid": False, "max_dist": 1.0},
    {"method": "distance", "grid": True, "max_dist": 0.5},
]
