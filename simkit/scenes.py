"""JSON-describable grids, droplets, emulsions and rendered frames.

Everything a case refers to is an explicit JSON object, so replay never consults a
PRNG.  Coordinates and radii are drawn on a dyadic lattice (multiples of 1/16) so they
are exactly representable.
"""

from __future__ import annotations

import math
import random
from typing import Any

import numpy as np

Q = 16  # lattice denominator


def q(x: float) -> float:
    return round(x * Q) / Q


# --------------------------------------------------------------------------- grids


def make_grid(spec: dict):
    from pde import CartesianGrid, CylindricalSymGrid, PolarSymGrid, SphericalSymGrid

    k = spec["kind"]
    if k == "cart":
        return CartesianGrid(spec["bounds"], spec["shape"], periodic=spec["periodic"])
    if k == "cyl":
        return CylindricalSymGrid(spec["radius"], spec["bounds_z"], spec["shape"],
                                  periodic_z=spec.get("periodic_z", False))
    # (grids with a symmetry may have an inner hole: radius given as a pair)
    radius = (spec["r_inner"], spec["radius"]) if spec.get("r_inner") else spec.get("radius")
    if k == "polar":
        return PolarSymGrid(radius, spec["shape"])
    if k == "sph":
        return SphericalSymGrid(radius, spec["shape"])
    raise ValueError(k)


def grid_dim(spec: dict) -> int:
    if spec["kind"] == "cart":
        return len(spec["shape"])
    return {"cyl": 3, "polar": 2, "sph": 3}[spec["kind"]]


def random_cart_grid(rng: random.Random, dim: int | None = None, max_cells: int = 1600,
                     min_n: int = 8) -> dict:
    dim = dim or rng.choice([1, 2, 2, 2, 3])
    max_n = {1: 64, 2: int(math.sqrt(max_cells)), 3: int(round(max_cells ** (1 / 3)))}[dim]
    max_n = max(max_n, min_n)
    shape, bounds = [], []
    for _ in range(dim):
        n = rng.randint(min_n, max_n)
        dx = rng.choice([0.5, 1.0, 1.0, 1.0, 2.0]) if rng.random() < 0.4 else 1.0
        lo = q(rng.choice([0.0, 0.0, -3.5, 2.25, -n * dx / 2]))
        shape.append(n)
        bounds.append([lo, lo + n * dx])
    periodic = [rng.random() < 0.5 for _ in range(dim)]
    return {"kind": "cart", "bounds": bounds, "shape": shape, "periodic": periodic}


def random_cyl_grid(rng: random.Random, max_cells: int = 900) -> dict:
    nr = rng.randint(6, 16)
    nz = rng.randint(8, max(8, min(40, max_cells // nr)))
    dr = rng.choice([0.5, 1.0, 1.0])
    dz = rng.choice([0.5, 1.0, 1.0])
    z0 = q(rng.choice([0.0, -nz * dz / 2, 1.5]))
    return {"kind": "cyl", "radius": nr * dr, "bounds_z": [z0, z0 + nz * dz],
            "shape": [nr, nz], "periodic_z": rng.random() < 0.5}


def random_sym_grid(rng: random.Random) -> dict:
    n = rng.randint(8, 32)
    dr = rng.choice([0.5, 1.0, 1.0])
    return {"kind": rng.choice(["polar", "sph"]), "radius": n * dr, "shape": n}


# --------------------------------------------------------------------------- droplets


def make_droplet(spec: dict):
    import droplets.droplets as dd

    cls = getattr(dd, spec["cls"])
    pos = np.array(spec["position"], dtype=float)
    if spec["cls"] == "SphericalDroplet":
        return cls(pos, spec["radius"])
    kw: dict[str, Any] = {"interface_width": spec.get("interface_width")}
    if spec["cls"] != "DiffuseDroplet":
        kw["amplitudes"] = np.array(spec.get("amplitudes", []), dtype=float)
    return cls(pos, spec["radius"], **kw)


def refined_droplet(d):
    """The droplet as the library's own refinement hands it back: rendered on a small grid
    around it and passed through the real refine_droplet (one function evaluation)."""
    from droplets.image_analysis import refine_droplet
    from pde import CartesianGrid

    if type(d).__name__ == "PerturbedDroplet3DAxisSym" or not d.radius > 0:
        return d
    try:
        r = float(d.radius) + 1.0
        grid = CartesianGrid([[float(x) - r, float(x) + r] for x in d.position], 6)
        field = d.get_phase_field(grid)
        return refine_droplet(field, d, least_squares_params={"max_nfev": 1})
    except Exception:
        return d


def make_emulsion(specs: list[dict]):
    from droplets import Emulsion

    return Emulsion([make_droplet(s) for s in specs])


def droplet_spec(d) -> dict:
    s = {"cls": type(d).__name__, "position": [float(x) for x in d.position],
         "radius": float(d.radius)}
    if "interface_width" in d.data.dtype.names:
        s["interface_width"] = d.interface_width
    if "amplitudes" in d.data.dtype.names:
        s["amplitudes"] = [float(a) for a in d.amplitudes]
    return s


def min_image(dx: np.ndarray, size: np.ndarray, periodic: np.ndarray) -> np.ndarray:
    """Minimum-image displacement (own implementation, independent of py-pde)."""
    dx = np.array(dx, dtype=float)
    for i in range(len(dx)):
        if periodic[i]:
            L = size[i]
            dx[i] = dx[i] - L * math.floor(dx[i] / L + 0.5)
    return dx


def grid_metric(spec: dict | None):
    """Distance function implied by a Cartesian grid spec (Euclidean when None)."""
    if spec is None:
        return lambda a, b: float(np.sqrt(np.sum((np.asarray(a, float) - np.asarray(b, float)) ** 2)))
    b = np.array(spec["bounds"], dtype=float)
    size = b[:, 1] - b[:, 0]
    per = np.array(spec["periodic"], dtype=bool)

    def dist(a, c):
        d = min_image(np.asarray(a, float) - np.asarray(c, float), size, per)
        return float(np.sqrt(np.sum(d * d)))

    return dist


def random_separated_droplets(rng: random.Random, grid: dict, n: int, rmin=1.5, rmax=5.0,
                              gap=1.5, margin=1.0, cls_choices=("DiffuseDroplet",),
                              tries: int = 60) -> list[dict]:
    """Non-overlapping droplets on a Cartesian grid spec, `gap` apart, lattice coords."""
    b = np.array(grid["bounds"], dtype=float)
    per = grid["periodic"]
    size = b[:, 1] - b[:, 0]
    dist = grid_metric(grid)
    out: list[dict] = []
    for _ in range(n):
        for _t in range(tries):
            r = q(rng.uniform(rmin, min(rmax, float(size.min()) / 3)))
            if r < rmin:
                continue
            pos = []
            ok = True
            for i in range(len(size)):
                if per[i]:
                    pos.append(q(rng.uniform(b[i, 0], b[i, 1] - 1 / Q)))
                else:
                    lo, hi = b[i, 0] + r + margin, b[i, 1] - r - margin
                    if hi < lo:
                        ok = False
                        break
                    pos.append(q(rng.uniform(lo, hi)))
            if not ok:
                continue
            # a droplet must not see its own periodic image
            if any(per[i] and 2 * r + gap >= size[i] for i in range(len(size))):
                continue
            if all(dist(pos, o["position"]) > r + o["radius"] + gap for o in out):
                cls = rng.choice(list(cls_choices))
                s = {"cls": cls, "position": pos, "radius": r}
                if cls != "SphericalDroplet":
                    s["interface_width"] = rng.choice([None, 0.5, 1.0, 1.0, 1.5])
                out.append(s)
                break
    return out


# --------------------------------------------------------------------------- frames


def render(frame: dict):
    """Render a frame spec {grid, droplets, noise?, affine?, kind?} to a ScalarField."""
    from pde import ScalarField

    grid = make_grid(frame["grid"])
    kind = frame.get("kind", "scene")
    if kind == "constant":
        data = np.full(grid.shape, float(frame.get("value", 0.0)))
    else:
        drops = frame.get("droplets", [])
        if drops and any("intensity" in d for d in drops):
            # droplets of different composition: each one scaled by its own plateau value
            data = np.zeros(grid.shape)
            for d in drops:
                spec = {k: v for k, v in d.items() if k != "intensity"}
                data = data + float(d.get("intensity", 1.0)) * make_droplet(spec).get_phase_field(grid).data
        elif drops:
            data = make_emulsion(drops).get_phasefield(grid).data.copy()
        else:
            data = np.zeros(grid.shape)
    noise = frame.get("noise")
    if noise:
        rng = np.random.default_rng(int(noise["seed"]))
        data = data + float(noise["amp"]) * rng.standard_normal(grid.shape)
    if kind == "binary":
        data = (data > 0.5).astype(float)
    for cell in frame.get("specks", []):
        data[tuple(int(c) % n for c, n in zip(cell, grid.shape))] = 1.0
    aff = frame.get("affine")
    if aff:
        data = float(aff[0]) + float(aff[1]) * data
    if frame.get("dtype"):
        # reduced-precision fields (images, compact storages, masks): the field keeps its dtype
        dt = np.dtype(frame["dtype"])
        if dt.kind == "b":
            data = data > 0.5
        elif dt.kind in "iu":
            info = np.iinfo(dt)
            data = np.clip(np.round(data * 100.0), info.min, info.max)
        return ScalarField(grid, data.astype(dt), dtype=dt)
    return ScalarField(grid, data)


def emulsion_fingerprint(em) -> list:
    """[(class name, bytes hash)] for an emulsion (order preserved)."""
    from .core import data_hash

    return [[type(d).__name__, data_hash(d.data)] for d in em]


def emulsion_equal_bits(a, b) -> bool:
    if len(a) != len(b):
        return False
    for x, y in zip(a, b):
        if type(x) is not type(y) or x.data.dtype != y.data.dtype:
            return False
        if x.data.tobytes() != y.data.tobytes():
            return False
    return True
