"""Simulated process pool.

`install()` replaces `concurrent.futures.ProcessPoolExecutor`, `ThreadPoolExecutor`,
`as_completed`, `wait` and `multiprocessing.Pool` by dispatching proxies.  Outside an
active `PoolScript` the proxies behave exactly like the originals; inside one, every
pool the code under test creates is a single-threaded, lazily stepped simulation:

* `submit` pickles the task (process boundary) and queues it;
* at most `workers` tasks run at a time (FIFO dispatch, like the real pool);
* *which running task finishes next* is decided by the script's explicit choice list,
  so one script is one exactly repeatable completion order;
* a task executes (real library code, on the unpickled copy) when its completion
  event is popped; its result is pickled back;
* a *worker crash* at completion step `k` marks the pool broken: the running and
  queued futures get `BrokenProcessPool`, like the real executor.

Nothing here uses threads, real time or randomness.
"""

from __future__ import annotations

import concurrent.futures as cf
import concurrent.futures._base as cf_base
import concurrent.futures.process as cf_process
import multiprocessing
import multiprocessing.pool
import pickle
from typing import Any, Callable, Iterable

from .core import Counter, EventLog

RealProcessPoolExecutor = cf.ProcessPoolExecutor
RealThreadPoolExecutor = cf.ThreadPoolExecutor
real_as_completed = cf.as_completed
real_wait = cf.wait
RealMPPool = multiprocessing.Pool
BrokenProcessPool = cf_process.BrokenProcessPool


class SimDeadlock(RuntimeError):
    """The caller blocks on a future that no scheduled event can complete."""


class SimStepCap(RuntimeError):
    """The step cap of a simulated call was exhausted."""


class PoolScript:
    """Explicit schedule + fault plan for all pools created while it is active.

    Args:
        auto_workers: worker count used when the code asks for `max_workers=None`
        choices: at completion step s, the running task `running[choices[s] % len]`
            finishes (running tasks are ordered by submission index); the list is
            cycled, so any (sub-)list is executable
        crash_at: completion step at which the chosen task's worker dies instead
        durations: simulated seconds added per completion step (cycled; reporting only)
        pickle_boundary: pickle tasks/results (process pool) or not (thread pool)
    """

    def __init__(
        self,
        auto_workers: int = 4,
        choices: Iterable[int] = (0,),
        crash_at: int | None = None,
        durations: Iterable[float] = (1.0,),
        log: EventLog | None = None,
        counters: Counter | None = None,
    ):
        self.auto_workers = max(1, int(auto_workers))
        self.choices = list(choices) or [0]
        self.crash_at = crash_at
        self.durations = list(durations) or [1.0]
        self.log = log if log is not None else EventLog()
        self.counters = counters if counters is not None else Counter()
        self.step = 0  # global completion step over all pools of this script
        self.now = 0.0  # simulated seconds
        self.pools: list[SimPool] = []
        self.completion_orders: list[list[int]] = []
        self.crashed = False

    # -- context management
    def __enter__(self) -> "PoolScript":
        _ACTIVE.append(self)
        return self

    def __exit__(self, *exc) -> None:
        assert _ACTIVE and _ACTIVE[-1] is self
        _ACTIVE.pop()

    @property
    def submits(self) -> int:
        return sum(p.num_submitted for p in self.pools)


_ACTIVE: list[PoolScript] = []


def active_script() -> PoolScript | None:
    return _ACTIVE[-1] if _ACTIVE else None


def _process_chunk(fn, chunk):
    return [fn(*args) for args in chunk]


def _chain_from_iterable_of_lists(iterable):
    for element in iterable:
        element.reverse()
        while element:
            yield element.pop()


class SimFuture(cf.Future):
    """Future whose blocking accessors step the owning simulated pool."""

    def __init__(self, pool: "SimPool", index: int):
        super().__init__()
        self._sim_pool = pool
        self._sim_index = index

    def result(self, timeout=None):
        self._sim_pool.step_until(lambda: self.done())
        return super().result(0)

    def exception(self, timeout=None):
        self._sim_pool.step_until(lambda: self.done())
        return super().exception(0)


class SimPool(cf.Executor):
    """Single-threaded simulated executor (see module docstring)."""

    def __init__(
        self,
        script: PoolScript,
        max_workers: int | None = None,
        pickle_boundary: bool = True,
        initializer: Callable | None = None,
        initargs: tuple = (),
    ):
        if max_workers is not None and max_workers <= 0:
            raise ValueError("max_workers must be greater than 0")
        self.script = script
        self.workers = script.auto_workers if max_workers is None else int(max_workers)
        self.pickle_boundary = pickle_boundary
        self.queue: list[tuple[int, Any, SimFuture]] = []  # not yet dispatched
        self.running: list[tuple[int, Any, SimFuture]] = []
        self.num_submitted = 0
        self.num_events = 0
        self.broken = False
        self.is_shutdown = False
        self.order: list[int] = []
        self.pool_id = len(script.pools)
        script.pools.append(self)
        script.completion_orders.append(self.order)
        script.log.add("pool_open", pool=self.pool_id, workers=self.workers,
                       requested=max_workers)
        script.counters.inc("pools_opened")
        if initializer is not None:
            initializer(*initargs)

    # -- Executor API
    def submit(self, fn, /, *args, **kwargs):
        if self.broken:
            raise BrokenProcessPool("simulated pool is broken")
        if self.is_shutdown:
            raise RuntimeError("cannot schedule new futures after shutdown")
        idx = self.num_submitted
        self.num_submitted += 1
        if self.pickle_boundary:
            payload = pickle.dumps((fn, args, kwargs), protocol=pickle.HIGHEST_PROTOCOL)
        else:
            payload = (fn, args, kwargs)
        fut = SimFuture(self, idx)
        self.queue.append((idx, payload, fut))
        self.script.log.add("submit", pool=self.pool_id, task=idx)
        self.script.counters.inc("tasks_submitted")
        self._dispatch()
        return fut

    def map(self, fn, *iterables, timeout=None, chunksize=1):
        """Like ProcessPoolExecutor.map: `chunksize` is validated and items travel in chunks of
        that size, one task per chunk (a thread pool ignores it, like the real one)."""
        if not self.pickle_boundary:
            return super().map(fn, *iterables, timeout=timeout)
        if chunksize < 1:
            raise ValueError("chunksize must be >= 1.")
        if chunksize == 1:
            return super().map(fn, *iterables, timeout=timeout)
        import functools
        import itertools

        results = super().map(functools.partial(_process_chunk, fn),
                              itertools.batched(zip(*iterables), chunksize), timeout=timeout)
        return _chain_from_iterable_of_lists(results)

    def shutdown(self, wait=True, *, cancel_futures=False):
        if cancel_futures:
            for _, _, fut in self.queue:
                fut.cancel()
            self.queue = [q for q in self.queue if not q[2].cancelled()]
        if wait:
            self.step_until(lambda: not self.running and not self.queue)
        self.is_shutdown = True

    # -- simulation
    def _dispatch(self) -> None:
        while self.queue and len(self.running) < self.workers:
            item = self.queue.pop(0)
            if item[2].cancelled():
                continue
            if not item[2].set_running_or_notify_cancel():
                continue
            self.running.append(item)

    def pending(self) -> bool:
        return bool(self.running or self.queue)

    def step_until(self, cond: Callable[[], bool]) -> None:
        cap = 4 * self.num_submitted + 64
        while not cond():
            if self.broken or not self.running:
                if not self.running and self.queue and not self.broken:
                    self._dispatch()
                    if self.running:
                        continue
                if cond():
                    return
                raise SimDeadlock("blocked on a future that nothing can complete")
            if self.num_events > cap:
                raise SimStepCap(f"more than {cap} events in one simulated pool")
            self.step_once()

    def step_once(self) -> None:
        """Pop one completion event: the scheduled running task finishes (or its worker dies)."""
        s = self.script
        self.running.sort(key=lambda it: it[0])
        choice = s.choices[s.step % len(s.choices)]
        item = self.running[choice % len(self.running)]
        s.now += float(s.durations[s.step % len(s.durations)])
        step = s.step
        s.step += 1
        self.num_events += 1
        idx, payload, fut = item
        if s.crash_at is not None and step == s.crash_at and not s.crashed:
            # the worker holding this task dies abruptly
            s.crashed = True
            self.broken = True
            s.log.add("worker_crash", pool=self.pool_id, task=idx, step=step)
            s.counters.inc("fault.worker_crash")
            err = BrokenProcessPool(
                "A process in the process pool was terminated abruptly (simulated)"
            )
            for _, _, f in self.running + self.queue:
                if not f.done():
                    if f.running() or f.set_running_or_notify_cancel():
                        f.set_exception(err)
            self.running, self.queue = [], []
            return
        self.running.remove(item)
        self.order.append(idx)
        try:
            if self.pickle_boundary:
                fn, args, kwargs = pickle.loads(payload)
            else:
                fn, args, kwargs = payload
            res = fn(*args, **kwargs)
            if self.pickle_boundary:
                res = pickle.loads(pickle.dumps(res, protocol=pickle.HIGHEST_PROTOCOL))
        except BaseException as exc:  # task-internal errors propagate through the future
            if isinstance(exc, (KeyboardInterrupt, SystemExit)):
                raise
            fut.set_exception(exc)
            s.log.add("complete", pool=self.pool_id, task=idx, step=step, ok=False,
                      exc=type(exc).__name__)
        else:
            fut.set_result(res)
            s.log.add("complete", pool=self.pool_id, task=idx, step=step, ok=True)
        s.counters.inc("tasks_completed")
        self._dispatch()


def _sim_as_completed(fs, timeout=None):
    fs = list(dict.fromkeys(fs))
    done = [f for f in fs if f.done()]
    yield from done
    remaining = [f for f in fs if not f.done()]
    while remaining:
        pools = []
        for f in remaining:
            p = getattr(f, "_sim_pool", None)
            if p is not None and p.pending() and p not in pools:
                pools.append(p)
        if not pools:
            raise SimDeadlock("as_completed: no pool can make progress")
        pools[0].step_once()
        newly = [f for f in remaining if f.done()]
        remaining = [f for f in remaining if not f.done()]
        yield from newly


def _sim_wait(fs, timeout=None, return_when=cf.ALL_COMPLETED):
    fs = list(dict.fromkeys(fs))

    def satisfied() -> bool:
        done = [f for f in fs if f.done()]
        if return_when == cf.FIRST_COMPLETED:
            return bool(done)
        if return_when == cf.FIRST_EXCEPTION:
            if any(not f.cancelled() and f.exception(0) is not None for f in done):
                return True
        return len(done) == len(fs)

    while not satisfied():
        pools = []
        for f in fs:
            p = getattr(f, "_sim_pool", None)
            if p is not None and not f.done() and p.pending() and p not in pools:
                pools.append(p)
        if not pools:
            raise SimDeadlock("wait: no pool can make progress")
        pools[0].step_once()
    done = {f for f in fs if f.done()}
    return cf_base.DoneAndNotDoneFutures(done, set(fs) - done)


def _is_sim(fs) -> bool:
    return active_script() is not None


# --------------------------------------------------------------------------- proxies


class _PoolProxyMeta(type):
    def __instancecheck__(cls, obj):
        return isinstance(obj, (cls._real, SimPool))


class ProcessPoolExecutorProxy(metaclass=_PoolProxyMeta):
    _real = RealProcessPoolExecutor

    def __new__(cls, max_workers=None, mp_context=None, initializer=None, initargs=(),
                **kwargs):
        s = active_script()
        if s is None:
            return RealProcessPoolExecutor(max_workers, mp_context, initializer, initargs,
                                           **kwargs)
        return SimPool(s, max_workers, True, initializer, initargs)


class ThreadPoolExecutorProxy(metaclass=_PoolProxyMeta):
    _real = RealThreadPoolExecutor

    def __new__(cls, max_workers=None, thread_name_prefix="", initializer=None,
                initargs=()):
        s = active_script()
        if s is None:
            return RealThreadPoolExecutor(max_workers, thread_name_prefix, initializer,
                                          initargs)
        return SimPool(s, max_workers, False, initializer, initargs)


def as_completed_proxy(fs, timeout=None):
    if active_script() is None:
        return real_as_completed(fs, timeout)
    return _sim_as_completed(fs, timeout)


def wait_proxy(fs, timeout=None, return_when=cf.ALL_COMPLETED):
    if active_script() is None:
        return real_wait(fs, timeout, return_when)
    return _sim_wait(fs, timeout, return_when)


class _SimAsyncResult:
    def __init__(self, futs: list[SimFuture], single: bool):
        self._futs, self._single = futs, single

    def get(self, timeout=None):
        res = [f.result() for f in self._futs]
        return res[0] if self._single else res

    def wait(self, timeout=None):
        for f in self._futs:
            f.exception()

    def ready(self):
        return all(f.done() for f in self._futs)

    def successful(self):
        return all(f.done() and f.exception(0) is None for f in self._futs)


class SimMPPool:
    """`multiprocessing.Pool` look-alike on top of `SimPool`."""

    def __init__(self, script: PoolScript, processes=None, initializer=None, initargs=()):
        self._pool = SimPool(script, processes, True, initializer, initargs)

    def __enter__(self):
        return self

    def __exit__(self, *exc):
        self.terminate()

    def apply(self, func, args=(), kwds=None):
        return self._pool.submit(func, *args, **(kwds or {})).result()

    def apply_async(self, func, args=(), kwds=None, callback=None, error_callback=None):
        return _SimAsyncResult([self._pool.submit(func, *args, **(kwds or {}))], True)

    def map_async(self, func, iterable, chunksize=None, callback=None, error_callback=None):
        return _SimAsyncResult([self._pool.submit(func, a) for a in iterable], False)

    def map(self, func, iterable, chunksize=None):
        return self.map_async(func, iterable).get()

    def starmap_async(self, func, iterable, chunksize=None, callback=None,
                      error_callback=None):
        return _SimAsyncResult([self._pool.submit(func, *a) for a in iterable], False)

    def starmap(self, func, iterable, chunksize=None):
        return self.starmap_async(func, iterable).get()

    def imap(self, func, iterable, chunksize=1):
        futs = [self._pool.submit(func, a) for a in iterable]
        return (f.result() for f in futs)

    def imap_unordered(self, func, iterable, chunksize=1):
        futs = [self._pool.submit(func, a) for a in iterable]
        return (f.result() for f in _sim_as_completed(futs))

    def close(self):
        pass

    def terminate(self):
        self._pool.is_shutdown = True

    def join(self):
        self._pool.step_until(lambda: not self._pool.pending())


def mp_pool_proxy(processes=None, initializer=None, initargs=(), maxtasksperchild=None,
                  context=None):
    s = active_script()
    if s is None:
        return RealMPPool(processes, initializer, initargs, maxtasksperchild)
    return SimMPPool(s, processes, initializer, initargs)


_installed = False


def install() -> None:
    """Install the dispatching proxies (idempotent). Call before importing `droplets`."""
    global _installed
    if _installed:
        return
    cf.ProcessPoolExecutor = ProcessPoolExecutorProxy  # type: ignore
    cf.ThreadPoolExecutor = ThreadPoolExecutorProxy  # type: ignore
    cf.as_completed = as_completed_proxy  # type: ignore
    cf.wait = wait_proxy  # type: ignore
    cf_process.ProcessPoolExecutor = ProcessPoolExecutorProxy  # type: ignore
    multiprocessing.Pool = mp_pool_proxy  # type: ignore
    _installed = True


# --------------------------------------------------------------------------- schedules


def reachable_orders(num_tasks: int, workers: int) -> list[tuple[list[int], list[int]]]:
    """All (choices, completion order) pairs reachable with FIFO dispatch on `workers`.

    Distinct completion orders only; exponential, use for small `num_tasks`.
    """
    seen: dict[tuple, list[int]] = {}

    def rec(running: list[int], nxt: int, choices: list[int], order: list[int]):
        while nxt < num_tasks and len(running) < workers:
            running = running + [nxt]
            nxt += 1
        if not running:
            seen.setdefault(tuple(order), list(choices))
            return
        for c, t in enumerate(running):
            rec([r for r in running if r != t], nxt, choices + [c], order + [t])

    rec([], 0, [], [])
    return [(c, list(o)) for o, c in seen.items()]


def order_for(num_tasks: int, workers: int, choices: list[int]) -> list[int]:
    """Completion order produced by a choice list (same rule as `SimPool`)."""
    running: list[int] = []
    nxt, step, order = 0, 0, []
    choices = choices or [0]
    while True:
        while nxt < num_tasks and len(running) < workers:
            running.append(nxt)
            nxt += 1
        if not running:
            return order
        t = running[choices[step % len(choices)] % len(running)]
        step += 1
        running.remove(t)
        order.append(t)
