"""Seeds, labelled PRNG streams, canonical event log and run outcome records.

Nothing in this module reads a clock or draws from a PRNG on behalf of logging:
the event log is a pure record of decisions and observables.
"""

from __future__ import annotations

import hashlib
import json
import math
import random
import traceback
from dataclasses import dataclass, field
from typing import Any

import numpy as np


# --------------------------------------------------------------------------- seeds


def _h64(text: str) -> int:
    return int.from_bytes(hashlib.sha256(text.encode()).digest()[:8], "big")


def run_seed(verif_seed: int, prop: str, index: int) -> int:
    """Seed of run `index` of property `prop` under the batch seed `verif_seed`."""
    return _h64(f"{verif_seed}:{prop}:{index}")


class Streams:
    """Independent PRNG streams derived from one run seed by label.

    Adding a draw in one stream never perturbs another one, which keeps
    generated cases stable when a generator is extended.
    """

    def __init__(self, seed: int):
        self.seed = seed
        self._streams: dict[str, random.Random] = {}

    def __getitem__(self, label: str) -> random.Random:
        if label not in self._streams:
            self._streams[label] = random.Random(_h64(f"{self.seed}:{label}"))
        return self._streams[label]

    def np_rng(self, label: str) -> np.random.Generator:
        return np.random.default_rng(_h64(f"{self.seed}:np:{label}"))


# --------------------------------------------------------------------------- canonical form


def canon(obj: Any) -> Any:
    """Convert `obj` into a JSON-serialisable canonical form (floats kept exact)."""
    if obj is None or isinstance(obj, (bool, str)):
        return obj
    if isinstance(obj, (int, np.integer)):
        return int(obj)
    if isinstance(obj, (float, np.floating)):
        f = float(obj)
        if math.isnan(f):
            return "nan"
        if math.isinf(f):
            return "inf" if f > 0 else "-inf"
        return f
    if isinstance(obj, (bytes, bytearray)):
        return "b:" + hashlib.sha256(bytes(obj)).hexdigest()[:16]
    if isinstance(obj, np.ndarray):
        return {
            "nd": str(obj.dtype),
            "shape": list(obj.shape),
            "h": hashlib.sha256(np.ascontiguousarray(obj).tobytes()).hexdigest()[:16],
        }
    if isinstance(obj, np.void):
        return {"rec": str(obj.dtype), "h": hashlib.sha256(obj.tobytes()).hexdigest()[:16]}
    if isinstance(obj, dict):
        return {str(k): canon(v) for k, v in sorted(obj.items(), key=lambda kv: str(kv[0]))}
    if isinstance(obj, (list, tuple)):
        return [canon(v) for v in obj]
    if isinstance(obj, (set, frozenset)):
        return sorted((canon(v) for v in obj), key=lambda v: json.dumps(v, sort_keys=True))
    return repr(obj)


def jdump(obj: Any) -> str:
    return json.dumps(canon(obj), sort_keys=True, separators=(",", ":"))


def data_hash(data: Any) -> str:
    """Short hash of the raw bytes (+ dtype) of droplet data / arrays."""
    arr = np.asarray(data)
    h = hashlib.sha256()
    h.update(str(arr.dtype).encode())
    h.update(str(arr.shape).encode())
    h.update(np.ascontiguousarray(arr).tobytes())
    return h.hexdigest()[:16]


class EventLog:
    """Append-only record of one simulated run; its digest identifies the run."""

    def __init__(self, keep: int = 400):
        self._h = hashlib.sha256()
        self.count = 0
        self.keep = keep
        self.head: list[Any] = []  # the first `keep` events, for replay files/samples

    def add(self, _ev: str, /, **fields: Any) -> None:
        ev = {"k": _ev, **fields}
        s = jdump(ev)
        self._h.update(s.encode())
        self._h.update(b"\n")
        if self.count < self.keep:
            self.head.append(json.loads(s))
        self.count += 1

    def digest(self) -> str:
        return self._h.hexdigest()[:24]


# --------------------------------------------------------------------------- outcomes


@dataclass
class Violation:
    oracle: str  # e.g. "C15.O1"
    message: str
    signature: dict[str, str] = field(default_factory=dict)

    def key(self) -> tuple:
        """Violation class used while minimising (same oracle, same exception type)."""
        return (self.oracle, self.signature.get("exc_type", ""))

    def to_json(self) -> dict:
        return {"oracle": self.oracle, "message": self.message, "signature": self.signature}


@dataclass
class Outcome:
    digest: str
    violations: list[Violation] = field(default_factory=list)
    counters: dict[str, int] = field(default_factory=dict)  # faults fired, probes …
    sim_time: dict[str, float] = field(default_factory=dict)
    interleaving: str | None = None  # key of the schedule/history explored
    nontrivial: bool = False
    events: int = 0
    log_head: list[Any] = field(default_factory=list)
    coverage_keys: list[str] = field(default_factory=list)  # state/cell coverage keys
    narrowed: dict | None = None  # an explicit single-configuration case reproducing the violation


class SutError(Exception):
    """An exception that escaped the system under test (library code)."""

    def __init__(self, exc: BaseException):
        super().__init__(repr(exc))
        self.exc = exc
        self.exc_type = type(exc).__name__
        self.frame = sut_frame(exc)
        self.text = f"{type(exc).__name__}: {exc}"


def sut_frame(exc: BaseException) -> str:
    """The innermost frame inside the `droplets` package (file:function)."""
    tb = traceback.extract_tb(exc.__traceback__)
    best = ""
    for fs in tb:
        fn = fs.filename.replace("\\", "/")
        if "/droplets/" in fn:
            best = f"{fn.split('/droplets/')[-1]}:{fs.name}"
    if not best and tb:
        fs = tb[-1]
        best = f"{fs.filename.split('/')[-1]}:{fs.name}"
    return best


class Counter(dict):
    def inc(self, key: str, n: int = 1) -> None:
        self[key] = self.get(key, 0) + n
