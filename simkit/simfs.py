"""Simulated file system underneath the real HDF5 library.

`install()` replaces `h5py.File` by a subclass that, for paths under the virtual
root while a `SimFS` is active, opens the *real* HDF5 library on a Python file object
backed by an in-memory byte array (h5py's own file-object driver).  Faults are raised
from that file object: ENOSPC / EIO at the k-th `write` (optionally after a torn
prefix), EIO at the k-th `readinto`, EIO on `truncate`.

Not modelled, on purpose: silent short writes (h5py's file-object driver ignores the
returned count, so they would corrupt the *stub*), bit rot.
"""

from __future__ import annotations

import errno
import io
import os
import pathlib
from typing import Any

import h5py

from .core import Counter, EventLog

ROOT = "/sim"
RealH5File = h5py.File
_real_path_open = pathlib.Path.open

_ACTIVE: list["SimFS"] = []


def active_fs() -> "SimFS | None":
    return _ACTIVE[-1] if _ACTIVE else None


def is_sim_path(name: Any) -> bool:
    if isinstance(name, (str, os.PathLike)):
        try:
            p = os.fspath(name)
        except TypeError:
            return False
        if isinstance(p, bytes):
            p = p.decode()
        return p == ROOT or p.startswith(ROOT + "/")
    return False


class FaultPlan:
    """One fault for the next matching open.

    kind: 'enospc' (persistent from the k-th write on), 'eio' (one shot at the k-th
    write), 'enospc_torn' (k-th write stores a prefix, then ENOSPC, persistent),
    'read_eio' (one shot at the k-th readinto), 'truncate_eio', 'crash' (k-th write and
    everything after is silently discarded: simulated power cut, probe only).
    """

    def __init__(self, kind: str, k: int, torn_num: int = 1, torn_den: int = 2):
        self.kind, self.k = kind, int(k)
        self.torn_num, self.torn_den = torn_num, torn_den
        self.fired = 0

    @property
    def on_write(self) -> bool:
        return self.kind in ("enospc", "eio", "enospc_torn", "crash")


class SimFileObj(io.RawIOBase):
    def __init__(self, fs: "SimFS", path: str, writable: bool, plan: FaultPlan | None):
        super().__init__()
        self.fs, self.path, self._writable, self.plan = fs, path, writable, plan
        self.pos = 0
        self.n_write = 0
        self.n_read = 0
        self.bytes_written = 0
        self.dead = False  # after a simulated power cut nothing reaches the disk

    @property
    def buf(self) -> bytearray:
        return self.fs.files[self.path]

    def readable(self):
        return True

    def writable(self):
        return self._writable

    def seekable(self):
        return True

    def seek(self, offset, whence=0):
        if whence == 0:
            self.pos = offset
        elif whence == 1:
            self.pos += offset
        else:
            self.pos = len(self.buf) + offset
        return self.pos

    def tell(self):
        return self.pos

    def readinto(self, b):
        self.n_read += 1
        self.fs.total_reads += 1
        p = self.plan
        if p is not None and p.kind == "read_eio" and self.n_read == p.k and not p.fired:
            p.fired += 1
            self.fs.fired(p.kind, self.path, self.n_read)
            raise OSError(errno.EIO, "simulated I/O error on read")
        data = self.buf[self.pos:self.pos + len(b)]
        n = len(data)
        b[:n] = data
        self.pos += n
        return n

    def write(self, b):
        self.n_write += 1
        self.fs.total_writes += 1
        data = bytes(b)
        p = self.plan
        if p is not None and p.on_write:
            if p.kind == "crash":
                if self.n_write >= p.k:
                    if not p.fired:
                        self.fs.fired(p.kind, self.path, self.n_write)
                    p.fired += 1
                    self.dead = True
            elif p.kind == "eio":
                if self.n_write == p.k and not p.fired:
                    p.fired += 1
                    self.fs.fired(p.kind, self.path, self.n_write)
                    raise OSError(errno.EIO, "simulated I/O error on write")
            elif self.n_write >= p.k:
                if not p.fired:
                    self.fs.fired(p.kind, self.path, self.n_write)
                    if p.kind == "enospc_torn":
                        cut = (len(data) * p.torn_num) // p.torn_den
                        self._store(data[:cut])
                p.fired += 1
                raise OSError(errno.ENOSPC, "simulated: no space left on device")
        if self.dead:
            self.pos += len(data)
            return len(data)
        self._store(data)
        return len(data)

    def _store(self, data: bytes) -> None:
        buf = self.buf
        end = self.pos + len(data)
        if self.pos > len(buf):
            buf.extend(b"\0" * (self.pos - len(buf)))
        buf[self.pos:end] = data
        self.pos = end
        self.bytes_written += len(data)

    def truncate(self, size=None):
        p = self.plan
        if p is not None and p.kind == "truncate_eio" and not p.fired:
            p.fired += 1
            self.fs.fired(p.kind, self.path, 0)
            raise OSError(errno.EIO, "simulated I/O error on truncate")
        if size is None:
            size = self.pos
        if self.dead:
            return size
        buf = self.buf
        if size < len(buf):
            del buf[size:]
        else:
            buf.extend(b"\0" * (size - len(buf)))
        return size

    def flush(self):
        pass


class SimFS:
    """In-memory files under ROOT plus a one-shot fault plan for the next open."""

    def __init__(self, log: EventLog | None = None, counters: Counter | None = None):
        self.files: dict[str, bytearray] = {}
        self.log = log if log is not None else EventLog()
        self.counters = counters if counters is not None else Counter()
        self.armed: FaultPlan | None = None
        self.last_obj: SimFileObj | None = None
        self.opens = 0
        self.total_writes = 0
        self.total_reads = 0

    def __enter__(self):
        _ACTIVE.append(self)
        return self

    def __exit__(self, *exc):
        assert _ACTIVE[-1] is self
        _ACTIVE.pop()

    def arm(self, plan: FaultPlan | None) -> None:
        self.armed = plan

    def fired(self, kind: str, path: str, k: int) -> None:
        self.counters.inc(f"fault.{kind}")
        self.log.add("fault", kind=kind, path=path, k=k)

    def snapshot(self) -> dict[str, bytes]:
        return {k: bytes(v) for k, v in self.files.items()}

    def restore(self, snap: dict[str, bytes]) -> None:
        self.files = {k: bytearray(v) for k, v in snap.items()}

    def open_raw(self, path: str, mode: str) -> tuple[SimFileObj, str]:
        """Resolve an h5py-style mode against the simulated directory."""
        exists = path in self.files
        if mode == "r":
            if not exists:
                raise FileNotFoundError(errno.ENOENT, f"Unable to open file (sim): {path}")
            writable, h5mode = False, "r"
        elif mode == "r+":
            if not exists:
                raise FileNotFoundError(errno.ENOENT, f"Unable to open file (sim): {path}")
            writable, h5mode = True, "r+"
        elif mode == "w":
            self.files[path] = bytearray()
            writable, h5mode = True, "w"
        elif mode in ("w-", "x"):
            if exists:
                raise FileExistsError(errno.EEXIST, f"File exists (sim): {path}")
            self.files[path] = bytearray()
            writable, h5mode = True, "w"
        elif mode == "a":
            if exists and len(self.files[path]) > 0:
                writable, h5mode = True, "r+"
            else:
                self.files[path] = bytearray()
                writable, h5mode = True, "w"
        else:
            raise ValueError(f"Invalid mode {mode!r}")
        plan = None
        if self.armed is not None:
            wants_write = self.armed.on_write or self.armed.kind == "truncate_eio"
            if wants_write == writable:
                plan, self.armed = self.armed, None
        obj = SimFileObj(self, path, writable, plan)
        self.last_obj = obj
        self.opens += 1
        self.counters.inc("h5_opens")
        return obj, h5mode


class SimH5File(RealH5File):
    """`h5py.File` that sends paths under ROOT to the active simulated file system."""

    def __init__(self, name, mode="r", *args, **kwargs):
        fs = active_fs()
        if fs is not None and is_sim_path(name):
            path = os.fspath(name)
            obj, h5mode = fs.open_raw(path, mode)
            self._sim_obj = obj
            super().__init__(obj, h5mode, *args, **kwargs)
        else:
            super().__init__(name, mode, *args, **kwargs)


class _SimTextFile(io.StringIO):
    def __init__(self, fs: SimFS, path: str, mode: str):
        self._fs, self._path, self._mode = fs, path, mode
        init = ""
        if "r" in mode or "a" in mode:
            if path not in fs.files:
                if "r" in mode:
                    raise FileNotFoundError(errno.ENOENT, path)
            else:
                init = fs.files[path].decode()
        super().__init__(init)
        if "a" in mode:
            self.seek(0, 2)
        if "w" in mode:
            fs.files[path] = bytearray()

    def close(self):
        if not self.closed and ("w" in self._mode or "a" in self._mode):
            self._fs.files[self._path] = bytearray(self.getvalue().encode())
        super().close()


def _path_open(self, mode="r", *args, **kwargs):
    fs = active_fs()
    if fs is not None and is_sim_path(self):
        if "b" in mode:
            raise NotImplementedError("binary Path.open on the simulated fs")
        fs.counters.inc("text_opens")
        return _SimTextFile(fs, os.fspath(self), mode)
    return _real_path_open(self, mode, *args, **kwargs)


_installed = False


def install() -> None:
    global _installed
    if _installed:
        return
    h5py.File = SimH5File  # type: ignore
    pathlib.Path.open = _path_open  # type: ignore
    _installed = True
