"""JSON specs for droplets and collections, and builders turning them into objects."""

from __future__ import annotations

import random

import numpy as np

from .scenes import make_droplet, q

CLASSES = ["SphericalDroplet", "DiffuseDroplet", "PerturbedDroplet2D", "PerturbedDroplet3D",
           "PerturbedDroplet3DAxisSym"]


def class_dims(cls: str) -> list[int]:
    return {"PerturbedDroplet2D": [2], "PerturbedDroplet3D": [3],
            "PerturbedDroplet3DAxisSym": [3]}.get(cls, [1, 2, 3])


def random_layout(rng: random.Random) -> dict:
    """A droplet layout (class, dimension, mode count) shared by a homogeneous collection."""
    cls = rng.choice(CLASSES + ["SphericalDroplet", "DiffuseDroplet"])
    dim = rng.choice(class_dims(cls))
    lay = {"cls": cls, "dim": dim}
    if cls.startswith("Perturbed"):
        lay["modes"] = rng.choice([1, 2, 2, 3, 4, 6, 8])
    return lay


def random_droplet(rng: random.Random, lay: dict, radius0: bool = True) -> dict:
    cls, dim = lay["cls"], lay["dim"]
    pos = [q(rng.uniform(-20, 20)) for _ in range(dim)]
    if rng.random() < 0.05:
        pos[rng.randrange(dim)] = -0.0
    if cls == "PerturbedDroplet3DAxisSym":
        pos[0] = pos[1] = 0.0
    r = q(rng.uniform(0.25, 8))
    if radius0 and rng.random() < 0.08:
        r = 0.0
    s = {"cls": cls, "position": pos, "radius": r}
    if cls != "SphericalDroplet":
        s["interface_width"] = rng.choice([None, None, 0.0, 0.5, 1.0, q(rng.uniform(0.1, 3))])
    if cls.startswith("Perturbed"):
        s["amplitudes"] = [q(rng.uniform(-0.5, 0.5)) / 2 for _ in range(lay["modes"])]
    return s


def random_time_list(rng: random.Random, n: int) -> list:
    style = rng.choice(["range", "int", "float", "neg", "irregular", "np", "decimal", "bigint",
                        "cross_zero", "cross_zero", "offset", "tiny", "dup", "unsorted", "equal", "huge"])
    if style == "huge":  # whole-number floats beyond the range of 64-bit integers; tiny ones too
        t0 = rng.choice([1.5e19, 1e21, 2.0 ** 63, 1e300, -1e25])
        return [t0 * (i + 1) if abs(t0) < 1e299 else t0 * (1 + i / 8) for i in range(n)]
    if style in ("dup", "unsorted", "equal"):
        # legal time lists of stored collections that are not strictly increasing: repeated
        # stamps (continued runs), restarts / arbitrary order, all frames at one time
        base = [q(rng.uniform(-5, 20)) for _ in range(n)]
        if style == "equal":
            return [base[0]] * n if n else []
        if style == "dup":
            base.sort()
            return [base[max(0, i - rng.choice([0, 0, 1]))] for i in range(n)]
        return base
    if style == "cross_zero":  # an exact zero that is not the first time
        k = rng.randrange(n) if n else 0
        step = rng.choice([0.5, 0.75, 1, 2, 2.5])
        return [(i - k) * step + 0.0 for i in range(n)]
    if style == "offset":  # late in a long run: spacing tiny relative to the time
        t0 = rng.choice([1e6, 1e9, 123456.0])
        return [t0 + i for i in range(n)]
    if style == "tiny":
        return [i * 2e-9 for i in range(n)]
    if style == "range":
        return list(range(n))
    if style == "decimal":  # not representable in binary, nor in single precision
        t0 = rng.choice([0.1, -3.3, 1 / 3, 1e-3, 123456.789])
        step = rng.choice([0.1, 0.7, 1e-3, 1 / 7])
        return [t0 + i * step for i in range(n)]
    if style == "bigint":  # beyond single precision, below 2**53
        t0 = rng.choice([2 ** 24 + 1, 2 ** 31 + 7, 2 ** 52 + 1, 10 ** 9 + 7])
        return [t0 + 2 * i for i in range(n)]
    t = {"int": rng.randint(0, 50), "float": q(rng.uniform(0, 10)),
         "neg": -q(rng.uniform(1, 100)), "irregular": q(rng.uniform(-5, 5)),
         "np": rng.randint(0, 5)}[style]
    out = []
    for _ in range(n):
        if style == "np":
            out.append({"np": rng.choice(["int64", "float64", "float32", "int32"]), "v": t})
            t = t + rng.choice([1, 2, 0.5, 0.25])
        else:
            out.append(t)
            if style == "int":
                t = t + rng.randint(1, 5)
            elif style == "irregular":
                t = t + rng.choice([0.0625, 0.5, 1, 3.25, 100])
            else:
                t = t + rng.choice([0.5, 1.0, 1.5, 0.125])
    return out


def make_time(t):
    if isinstance(t, dict):
        return getattr(np, t["np"])(t["v"])
    return t


def random_collection(rng: random.Random, kind: str | None = None, big: bool = False,
                      hetero_rate: float = 0.08) -> dict:
    kind = kind or rng.choice(["emulsion", "etc", "track", "tracklist"])
    lay = random_layout(rng)

    def count(maxn=12):
        c = rng.choice([0, 1, 1, 2, 3, 5, 8, 10, 11, 12])
        if big and rng.random() < 0.5:
            c = rng.randint(101, 120)
        return min(c, maxn) if not big else c

    def droplets(n, lay=lay, track=False):
        ds = [random_droplet(rng, lay) for _ in range(n)]
        if n >= 2 and rng.random() < hetero_rate:
            other = random_layout(rng)
            twin = {"PerturbedDroplet3D": "PerturbedDroplet3DAxisSym",
                    "PerturbedDroplet3DAxisSym": "PerturbedDroplet3D"}.get(lay["cls"])
            if twin and rng.random() < 0.6:
                # another class with the very same record layout (same mode count)
                other = {**lay, "cls": twin}
            if track:
                # a track only accepts droplets of one space dimension
                for _ in range(20):
                    if lay["dim"] in class_dims(other["cls"]):
                        break
                    other = random_layout(rng)
                else:
                    other = dict(lay)
                other["dim"] = lay["dim"]
            ds[rng.randrange(n)] = random_droplet(rng, other)
        return ds

    if kind == "emulsion":
        return {"t": "emulsion", "droplets": droplets(count())}
    if kind == "etc":
        n = count()
        frames = []
        for _ in range(n):
            flay = lay if rng.random() < 0.85 else random_layout(rng)
            m = rng.choice([0, 0, 1, 2, 3, 5])
            frames.append(droplets(m, flay))
        return {"t": "etc", "frames": frames, "times": random_time_list(rng, n)}
    if kind == "track":
        n = count()
        return {"t": "track", "droplets": droplets(n, track=True),
                "times": random_time_list(rng, n), "via": rng.choice(["ctor", "ctor", "append"])}
    n = count()
    tracks = []
    for _ in range(n):
        tlay = lay if rng.random() < 0.85 else random_layout(rng)
        m = rng.choice([0, 1, 1, 2, 3, 5])
        tracks.append({"t": "track", "droplets": droplets(m, tlay, track=True),
                       "times": random_time_list(rng, m),
                       "via": rng.choice(["ctor", "ctor", "append"])})
    return {"t": "tracklist", "tracks": tracks}


def build(spec: dict):
    import droplets as dr

    t = spec["t"]
    if t == "emulsion":
        return dr.Emulsion([make_droplet(s) for s in spec["droplets"]])
    if t == "etc":
        return dr.EmulsionTimeCourse(
            [dr.Emulsion([make_droplet(s) for s in fr]) for fr in spec["frames"]],
            times=[make_time(x) for x in spec["times"]])
    if t == "track":
        return _build_track(spec)
    if t == "tracklist":
        return dr.DropletTrackList([_build_track(s) for s in spec["tracks"]])
    raise ValueError(t)


def _build_track(spec):
    import droplets as dr

    if spec.get("via") == "append":
        # the way the object comes to be is only a vehicle here: if appending is refused (that is
        # not C08's business) the same track is built through the constructor
        try:
            tr = dr.DropletTrack()
            for s, t in zip(spec["droplets"], spec["times"]):
                tr.append(make_droplet(s), make_time(t))
            return tr
        except Exception:
            pass
    # constructor path: times are taken as given
    return dr.DropletTrack([make_droplet(s) for s in spec["droplets"]],
                           times=[make_time(t) for t in spec["times"]])


def obj_class(spec_t: str):
    import droplets as dr

    return {"emulsion": dr.Emulsion, "etc": dr.EmulsionTimeCourse, "track": dr.DropletTrack,
            "tracklist": dr.DropletTrackList}[spec_t]


def fingerprint(obj) -> list:
    """Structure + classes + raw parameter bytes + times (value-typed), order preserved."""
    import droplets as dr

    def drops(ds):
        return [[type(d).__name__, repr(d.data.dtype.descr), d.data.tobytes().hex()] for d in ds]

    def tkey(t):
        f = float(t)
        return f.hex()

    if isinstance(obj, dr.Emulsion):
        return ["emulsion", drops(obj)]
    if isinstance(obj, dr.EmulsionTimeCourse):
        return ["etc", [len(obj.times), len(obj.emulsions)],
                [[tkey(t), drops(e)] for t, e in zip(obj.times, obj.emulsions)]]
    if isinstance(obj, dr.DropletTrackList):
        return ["tracklist", [fingerprint(t) for t in obj]]
    if isinstance(obj, dr.DropletTrack):
        return ["track", [len(obj.times), len(obj.droplets)],
                [[tkey(t), d] for t, d in zip(obj.times, drops(obj.droplets))]]
    raise TypeError(type(obj))
