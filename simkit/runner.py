"""Batch runner: seeded runs on a fork pool, determinism self-test, minimisation,
fresh-process replay verification, known findings, evidence.

Exit codes: 0 = property held on everything explored (KNOWN-FINDING lines allowed),
1 = at least one `VIOLATION property=<id> replay=<path>` line, 2 = harness error.
"""

from __future__ import annotations

import argparse
import faulthandler
import hashlib
import importlib
import json
import multiprocessing
import os
import signal
import subprocess
import sys
import time
import traceback
from pathlib import Path
from typing import Any

from . import simexec, simfs
from .core import Outcome, Streams, Violation, canon, run_seed

VERIF_DIR = Path(__file__).resolve().parent.parent
REPO = os.path.realpath(os.environ.get("VERIF_REPO", "/repo"))
EVIDENCE_DIR = VERIF_DIR / "evidence"
REPLAY_DIR = Path(os.environ.get("VERIF_REPLAY_DIR", VERIF_DIR / "replays"))
KNOWN_FILE = VERIF_DIR / "known_findings.json"
DEFAULT_SEED = 20260929

_MODULES = {}


def load_check(prop: str):
    prop = prop.upper()
    if prop not in _MODULES:
        _MODULES[prop] = importlib.import_module(f"checks.{prop.lower()}")
    return _MODULES[prop]


def prepare_environment() -> None:
    """Install seams, then import the library from the tree being verified."""
    simexec.install()
    simfs.install()
    if sys.path[0] != REPO:
        sys.path.insert(0, REPO)
    import droplets  # noqa: F401

    where = os.path.realpath(droplets.__file__)
    if not where.startswith(REPO + os.sep):
        raise RuntimeError(f"droplets imported from {where}, expected under {REPO}")
    import logging

    logging.disable(logging.CRITICAL)  # library logging is not an observable here
    import warnings

    warnings.simplefilter("ignore")
    try:  # progress bars must not start a monitor thread (a real thread, a real clock)
        import tqdm

        tqdm.tqdm.monitor_interval = 0
    except Exception:
        pass


# --------------------------------------------------------------------------- single runs


def make_case(mod, verif_seed: int, tier: str, index: int) -> dict:
    streams = Streams(run_seed(verif_seed, mod.PROPERTY, index))
    case = mod.generate(streams, tier, index)
    # the case must survive a JSON round trip unchanged: replay files are plain JSON
    return json.loads(json.dumps(case))


def run_case(mod, case: dict) -> Outcome:
    iso = getattr(mod, "isolate", None)
    if iso is not None and iso(case) and os.environ.get("VERIF_NO_ISOLATE") != "1":
        return _run_case_forked(mod, case)
    return mod.execute(case)


def _run_case_forked(mod, case: dict) -> Outcome:
    """Execute one case in a forked child and ship the Outcome back through a pipe.

    Used for cases that inject I/O faults under the real HDF5 library: a file whose close
    fails keeps its caches inside the C library for the life of the process (≈ 0.3 MB per
    injected fault, gigabytes over a long batch); the child takes that memory with it. The
    result is a pure function of the case either way.
    """
    import pickle

    r, w = os.pipe()
    pid = os.fork()
    if pid == 0:  # child
        status = 0
        try:
            os.close(r)
            try:
                payload = pickle.dumps(("ok", mod.execute(case)))
            except BaseException:  # noqa: BLE001  (reported to the parent, never swallowed)
                payload = pickle.dumps(("err", traceback.format_exc()))
            with os.fdopen(w, "wb") as fh:
                fh.write(payload)
        except BaseException:  # noqa: BLE001
            status = 3
        finally:
            os._exit(status)
    os.close(w)
    chunks = []
    with os.fdopen(r, "rb") as fh:
        while True:
            b = fh.read(1 << 20)
            if not b:
                break
            chunks.append(b)
    _, st = os.waitpid(pid, 0)
    data = b"".join(chunks)
    if not data:
        raise RuntimeError(f"isolated run died without a result (wait status {st})")
    kind, val = pickle.loads(data)
    if kind == "err":
        raise RuntimeError("isolated run raised inside the harness:\n" + val)
    return val


def _record(index: int, case: dict, out: Outcome, keep_case: bool) -> dict:
    rec = {
        "index": index,
        "digest": out.digest,
        "violations": [v.to_json() for v in out.violations],
        "counters": dict(out.counters),
        "sim_time": dict(out.sim_time),
        "interleaving": out.interleaving,
        "nontrivial": out.nontrivial,
        "events": out.events,
        "coverage_keys": out.coverage_keys,
    }
    if keep_case or out.violations:
        rec["case"] = out.narrowed if (out.violations and out.narrowed) else case
    if keep_case:
        rec["log_head"] = out.log_head[:40]
    return rec


def _chunk_worker(args) -> list[dict]:
    prop, verif_seed, tier, indices, sample_idx, timeout = args
    faulthandler.enable()
    faulthandler.dump_traceback_later(timeout, exit=True)
    try:
        mod = load_check(prop)
        out = []
        for i in indices:
            case = None
            try:
                case = make_case(mod, verif_seed, tier, i)
                o = run_case(mod, case)
            except BaseException as exc:  # harness bug: report, never a pass
                if isinstance(exc, KeyboardInterrupt):
                    raise
                return [{"harness_error": traceback.format_exc(), "index": i, "case": case}]
            out.append(_record(i, case, o, i in sample_idx))
        return out
    finally:
        faulthandler.cancel_dump_traceback_later()


class HarnessError(Exception):
    pass


# set by run_batch when a chunk died or hung AFTER violations had been recorded in other runs
ABORTED: list[str] = []


def _kill_pool(pool) -> None:
    procs = list(getattr(pool, "_processes", {}).values())
    for p in procs:
        try:
            os.kill(p.pid, signal.SIGKILL)
        except Exception:
            pass


def run_batch(prop, verif_seed, tier, indices, jobs, chunk, sample_idx, wall_cap,
              chunk_timeout=240):
    """Run the given run indices; returns (records sorted by index, budget_exhausted)."""
    ctx = multiprocessing.get_context("fork")
    chunks = [indices[i:i + chunk] for i in range(0, len(indices), chunk)]
    # The chunks are worked through in a fixed low-discrepancy order (golden-ratio walk), not
    # front to back: a wall budget that ends the batch early (slow or busy machine) then still
    # leaves a mix of every region of the index space (exhaustive prefixes, fixed probe histories,
    # seeded histories) instead of the first region only.  The order is a function of the number
    # of chunks alone, so the explored set stays a function of (seed, tier, count).
    chunks = [chunks[c] for c in sorted(range(len(chunks)),
                                        key=lambda c: (c * 0.6180339887498949) % 1.0)]
    order = [i for ch in chunks for i in ch]
    records: list[dict] = []
    t0 = time.monotonic()
    exhausted = False
    pool = simexec.RealProcessPoolExecutor(max_workers=jobs, mp_context=ctx)
    try:
        pending = {}
        it = iter(chunks)
        done_chunks = 0

        def submit_next() -> bool:
            nonlocal exhausted
            try:
                ch = next(it)
            except StopIteration:
                return False
            if wall_cap is not None and time.monotonic() - t0 > wall_cap:
                exhausted = True
                return False
            f = pool.submit(_chunk_worker, (prop, verif_seed, tier, ch, sample_idx,
                                            chunk_timeout))
            pending[f] = (ch, time.monotonic())
            return True

        for _ in range(jobs * 2):
            if not submit_next():
                break
        while pending:
            done, _ = simexec.real_wait(list(pending), timeout=5,
                                        return_when="FIRST_COMPLETED")
            now = time.monotonic()
            for f in done:
                ch, _t = pending.pop(f)
                try:
                    recs = f.result()
                except Exception as exc:
                    msg = f"worker died on runs {ch[0]}..{ch[-1]}: {exc!r}"
                    if any(r.get("violations") for r in records):
                        # violations were already observed: report those (the caller decides;
                        # without a confirmed new violation the abort is still a harness error)
                        ABORTED.append(msg)
                        pending.clear()
                        break
                    raise HarnessError(msg)
                for r in recs:
                    if "harness_error" in r:
                        raise HarnessError(
                            f"run {r['index']} raised inside the harness:\n"
                            f"{r['harness_error']}\ncase={json.dumps(r['case'])[:2000]}"
                        )
                records.extend(recs)
                done_chunks += 1
                submit_next()
            for f, (ch, ts) in list(pending.items()):
                if now - ts > chunk_timeout + 30:
                    msg = f"runs {ch[0]}..{ch[-1]} hung (> {chunk_timeout}s)"
                    if any(r.get("violations") for r in records):
                        ABORTED.append(msg)
                        pending.clear()
                        break
                    raise HarnessError(msg)
        if ABORTED:
            _kill_pool(pool)
            pool.shutdown(wait=False, cancel_futures=True)
            records.sort(key=lambda r: r["index"])
            return records, True
    except BaseException:
        _kill_pool(pool)
        pool.shutdown(wait=False, cancel_futures=True)
        raise
    pool.shutdown(wait=True)
    records.sort(key=lambda r: r["index"])
    # keep a contiguous prefix (of the fixed order) only, so the explored set is a function of
    # (seed, count)
    if exhausted:
        have = {r["index"] for r in records}
        n = 0
        while n < len(order) and order[n] in have:
            n += 1
        keep = set(order[:n])
        records = [r for r in records if r["index"] in keep]
    return records, exhausted


# --------------------------------------------------------------------------- known findings


def load_known() -> list[dict]:
    if not KNOWN_FILE.exists():
        return []
    data = json.loads(KNOWN_FILE.read_text())
    return data.get("findings", [])


def match_known(prop: str, v: dict, known: list[dict]) -> dict | None:
    for k in known:
        if k.get("property") != prop or k.get("status") != "open":
            continue
        m = k.get("match", {})
        if m and all(v["signature"].get(a) == b for a, b in m.items()):
            return k
    return None


# --------------------------------------------------------------------------- minimisation


def _vkeys(out: Outcome) -> set:
    return {v.key() for v in out.violations}


def minimise(mod, case: dict, key: tuple, max_exec: int = 400, max_s: float = 90.0):
    """Greedy delta debugging driven by the check's own `shrink` candidates."""
    t0 = time.monotonic()
    execs = 0
    improved = True
    while improved and execs < max_exec and time.monotonic() - t0 < max_s:
        improved = False
        for cand in mod.shrink(case):
            if execs >= max_exec or time.monotonic() - t0 > max_s:
                break
            cand = json.loads(json.dumps(cand))
            if cand == case:
                continue
            execs += 1
            try:
                out = run_case(mod, cand)
            except Exception:
                continue  # candidate not executable: skip
            if key in _vkeys(out):
                case = cand
                improved = True
                break
    return case, execs


def write_replay(mod, case: dict, out: Outcome, v: Violation, verif_seed, index, orig_size):
    REPLAY_DIR.mkdir(parents=True, exist_ok=True)
    body = {
        "property": mod.PROPERTY,
        "oracle": v.oracle,
        "seed": verif_seed,
        "run_index": index,
        "case": case,
        "minimised_from": orig_size,
        "expected": {
            "signature": v.signature,
            "message": v.message,
            "digest": out.digest,
        },
        "trace": out.log_head[:200],
    }
    h = hashlib.sha256(json.dumps(canon(body["case"]), sort_keys=True).encode()).hexdigest()[:8]
    path = REPLAY_DIR / f"{mod.PROPERTY}-{h}.json"
    path.write_text(json.dumps(body, indent=1, sort_keys=True))
    return path


def replay_file(prop: str, path: str, quiet: bool = False) -> int:
    mod = load_check(prop)
    body = json.loads(Path(path).read_text())
    out = run_case(mod, body["case"])
    exp = body.get("expected", {})
    same_digest = out.digest == exp.get("digest")
    print(f"REPLAY property={mod.PROPERTY} digest={out.digest} "
          f"expected={exp.get('digest')} match={same_digest}")
    if not out.violations:
        print(f"REPLAY property={mod.PROPERTY}: no violation on this tree")
        return 0
    known = load_known()
    rc = 0
    for v in out.violations:
        vj = v.to_json()
        k = match_known(mod.PROPERTY, vj, known)
        if k is not None:
            print(f"KNOWN-FINDING: property={mod.PROPERTY} {k.get('description', '')}")
            continue
        rc = 1
        if not quiet:
            print(f"  {v.oracle}: {v.message}")
            print(f"  signature={json.dumps(v.signature, sort_keys=True)}")
    if rc:
        print(f"VIOLATION property={mod.PROPERTY} replay={path}")
    return rc


# --------------------------------------------------------------------------- main


def _fresh_digests(prop, verif_seed, tier, indices, hashseed="1"):
    env = dict(os.environ)
    env["PYTHONHASHSEED"] = hashseed
    env["VERIF_REEXEC"] = "1"
    env["VERIF_SEED"] = str(verif_seed)
    cmd = [sys.executable, str(VERIF_DIR / "check"), prop, "--tier", tier,
           "--digests", ",".join(map(str, indices))]
    p = subprocess.run(cmd, env=env, capture_output=True, text=True, timeout=600,
                       cwd=str(VERIF_DIR))
    if p.returncode != 0:
        raise HarnessError(f"fresh-interpreter digest run failed:\n{p.stdout}\n{p.stderr}")
    res = {}
    for line in p.stdout.splitlines():
        if line.startswith("DIGEST "):
            _, i, d = line.split()
            res[int(i)] = d
    return res


def main(argv=None) -> int:
    ap = argparse.ArgumentParser(prog="check")
    ap.add_argument("prop")
    ap.add_argument("--tier", default=os.environ.get("VERIF_TIER", "quick"),
                    choices=["quick", "thorough"])
    ap.add_argument("--replay")
    ap.add_argument("--runs", type=int)
    ap.add_argument("--budget", type=float, help="wall cap in seconds for the main batch")
    ap.add_argument("--jobs", type=int, default=int(os.environ.get("VERIF_JOBS", "16")))
    ap.add_argument("--digests", help="comma separated run indices: print digests only")
    ap.add_argument("--index", type=int, help="run one index in-process, verbosely")
    ap.add_argument("--no-evidence", action="store_true")
    ap.add_argument("--quiet", action="store_true")
    args = ap.parse_args(argv)

    prop = args.prop.upper()
    try:
        verif_seed = int(os.environ.get("VERIF_SEED", DEFAULT_SEED))
    except ValueError:
        verif_seed = int.from_bytes(
            hashlib.sha256(os.environ["VERIF_SEED"].encode()).digest()[:6], "big")
    t_start = time.monotonic()
    try:
        prepare_environment()
        mod = load_check(prop)
        if args.replay:
            return replay_file(prop, args.replay, args.quiet)
        if args.digests:
            for i in map(int, args.digests.split(",")):
                out = run_case(mod, make_case(mod, verif_seed, args.tier, i))
                print(f"DIGEST {i} {out.digest}")
            return 0
        if args.index is not None:
            case = make_case(mod, verif_seed, args.tier, args.index)
            print(json.dumps(case, indent=1)[:6000])
            out = run_case(mod, case)
            print("digest", out.digest, "events", out.events)
            print("counters", json.dumps(out.counters, sort_keys=True))
            for v in out.violations:
                print("VIOLATION-DETAIL", v.oracle, v.message, v.signature)
            return 1 if out.violations else 0
        return _main_batch(mod, prop, verif_seed, args, t_start)
    except HarnessError as exc:
        print(f"HARNESS-ERROR property={prop}: {exc}")
        return 2
    except Exception:
        print(f"HARNESS-ERROR property={prop}:\n{traceback.format_exc()}")
        return 2


def _confirm_violation(mod, prop, verif_seed, known, r, vj):
    """Minimise one violating run and confirm it by replay in a fresh interpreter."""
    v = Violation(vj["oracle"], vj["message"], vj["signature"])
    case0 = r["case"]
    size0 = len(json.dumps(case0))
    case, execs = minimise(mod, case0, v.key())
    out = run_case(mod, case)
    vmin = next((x for x in out.violations if x.key() == v.key()), None)
    if vmin is None:
        return ("problem", f"run {r['index']} did not reproduce in-process")
    k = match_known(prop, vmin.to_json(), known)
    if k is not None:
        return ("known", k)
    path = write_replay(mod, case, out, vmin, verif_seed, r["index"], size0)
    env = dict(os.environ)
    env["VERIF_REEXEC"] = "1"
    env["PYTHONHASHSEED"] = "0"
    p = subprocess.run([sys.executable, str(VERIF_DIR / "check"), prop, "--replay",
                        str(path), "--quiet"], env=env, capture_output=True, text=True,
                       timeout=600, cwd=str(VERIF_DIR))
    if p.returncode != 1 or "match=True" not in p.stdout:
        # The code under test may itself be non-deterministic (e.g. iterating a set of
        # futures): then no replay can be exact.  The violation is still real if it keeps
        # showing when the same explicit case is executed again in this process.
        again = [any(x.key() == v.key() for x in run_case(mod, case).violations) for _ in range(3)]
        if all(again):
            body = json.loads(Path(path).read_text())
            body["nondeterministic"] = ("the fresh-interpreter replay did not reproduce the same "
                                        "digest; the violation reproduced 4/4 times in-process")
            Path(path).write_text(json.dumps(body, indent=1, sort_keys=True))
            print(f"WARNING property={prop}: replay {path} is not exact — the code under test "
                  f"behaves differently in a fresh interpreter (non-deterministic); the "
                  f"violation reproduced 4/4 times in-process")
            return ("ok", path, vmin, size0, len(json.dumps(case)), execs)
        return ("problem", f"replay {path} did not reproduce in a fresh process "
                           f"(rc={p.returncode}): {p.stdout[-300:]} {p.stderr[-300:]}")
    return ("ok", path, vmin, size0, len(json.dumps(case)), execs)


def _main_batch(mod, prop, verif_seed, args, t_start) -> int:
    tier = args.tier
    plan = dict(mod.TIERS[tier])
    runs = args.runs or int(os.environ.get("VERIF_RUNS", 0)) or plan["runs"]
    budget = args.budget or plan.get("budget_s")
    chunk = plan.get("chunk", 8)
    jobs = max(1, args.jobs)
    print(f"SEED property={prop} VERIF_SEED={verif_seed} tier={tier} runs={runs} "
          f"jobs={jobs} repo={REPO}")
    indices = list(range(runs))
    n_samples = 6
    sample_idx = set(indices[:: max(1, runs // n_samples)][:n_samples])

    t0 = time.monotonic()
    records, exhausted = run_batch(prop, verif_seed, tier, indices, jobs, chunk,
                                   sample_idx, budget, chunk_timeout=plan.get("chunk_timeout", 240))
    batch_s = time.monotonic() - t0
    if not records:
        raise HarnessError("no run completed within the budget")

    # ---- violations
    known = load_known()
    known_hits: dict[str, dict] = {}
    unknown: dict[str, list[tuple[dict, dict]]] = {}
    sig_counts: dict[str, int] = {}
    n_violating = 0
    for r in records:
        if not r["violations"]:
            continue
        n_violating += 1
        for v in r["violations"]:
            k = match_known(prop, v, known)
            if k is not None:
                known_hits.setdefault(k.get("id", k.get("description", "?")), k)
            else:
                sig = json.dumps([v["oracle"], v["signature"]], sort_keys=True)
                sig_counts[sig] = sig_counts.get(sig, 0) + 1
                unknown.setdefault(sig, [])
                if len(unknown[sig]) < 3:
                    unknown[sig].append((r, v))
    rc = 0
    for k in known_hits.values():
        print(f"KNOWN-FINDING: property={prop} {k.get('description', '')}")
    reported = []
    seen_min: set[str] = set()
    unconfirmed: list[str] = []
    for sig, cands in list(unknown.items())[:4]:
        problems = []
        for r, vj in cands:
            res = _confirm_violation(mod, prop, verif_seed, known, r, vj)
            if res[0] == "known":
                print(f"KNOWN-FINDING: property={prop} {res[1].get('description', '')}")
                break
            if res[0] == "problem":
                problems.append(res[1])
                continue
            _, path, vmin, size0, size1, execs = res
            msig = json.dumps([vmin.oracle, vmin.signature], sort_keys=True)
            if msig in seen_min:
                break
            seen_min.add(msig)
            print(f"  {vmin.oracle}: {vmin.message}")
            print(f"  signature={json.dumps(vmin.signature, sort_keys=True)} "
                  f"(run {r['index']}, minimised {size0}->{size1} bytes, {execs} executions)")
            print(f"VIOLATION property={prop} replay={path}")
            reported.append(str(path))
            rc = 1
            break
        else:
            if sig_counts.get(sig, 0) >= 3:
                # The same oracle failed in several independent runs but no single run
                # replays exactly: the code under test is itself non-deterministic (e.g. it
                # iterates a set of futures).  Report it with the original, unminimised case.
                r, vj = cands[0]
                v = Violation(vj["oracle"], vj["message"], vj["signature"])
                out = Outcome(digest="(not reproducible)", log_head=[])
                path = write_replay(mod, r["case"], out, v, verif_seed, r["index"],
                                    len(json.dumps(r["case"])))
                body = json.loads(Path(path).read_text())
                body["nondeterministic"] = (
                    f"observed in {sig_counts[sig]} runs of this batch, but no run replays "
                    f"exactly: {problems}")
                Path(path).write_text(json.dumps(body, indent=1, sort_keys=True))
                print(f"WARNING property={prop}: the violation below was observed in "
                      f"{sig_counts[sig]} runs but does not replay exactly — the code under test "
                      f"behaves differently from one execution to the next")
                print(f"  {v.oracle}: {v.message}")
                print(f"VIOLATION property={prop} replay={path}")
                reported.append(str(path))
                rc = 1
                continue
            unconfirmed.append(f"violation {sig} could not be confirmed in {len(cands)} "
                               f"attempts: {problems}")
    if ABORTED:
        if rc == 0:
            raise HarnessError("; ".join(ABORTED))
        print(f"WARNING property={prop}: the batch was cut short ({'; '.join(ABORTED)[:300]}); "
              f"the violations above come from the runs completed before")
    if unconfirmed:
        if rc == 0:
            raise HarnessError("; ".join(unconfirmed))
        for u in unconfirmed:
            print(f"WARNING property={prop}: {u[:600]}")

    # ---- determinism self-test: same seeds again, other pool size / chunking, and
    # a sample in a fresh interpreter under another PYTHONHASHSEED
    by_index = {r["index"]: r for r in records}
    det_n = min(plan.get("det_pairs", 32), len(records))
    det_idx = [r["index"] for r in records[:: max(1, len(records) // det_n)]][:det_n]
    if ABORTED:
        det_idx = []  # (the batch was cut short and a violation is reported: no self-test)
    rec2, _ = run_batch(prop, verif_seed, tier, list(reversed(det_idx)), 5, 3, set(), None) \
        if det_idx else ([], False)
    mismatch = [r["index"] for r in rec2 if r["digest"] != by_index[r["index"]]["digest"]]
    fresh_n = min(plan.get("fresh", 4), len(det_idx))
    fresh_pairs = 0
    if fresh_n:
        fidx = det_idx[:fresh_n]
        fres = _fresh_digests(prop, verif_seed, tier, fidx)
        for i in fidx:
            fresh_pairs += 1
            if fres.get(i) != by_index[i]["digest"]:
                mismatch.append(i)
    if mismatch:
        if rc == 0:
            raise HarnessError(f"non-deterministic runs (digest mismatch) at indices "
                               f"{sorted(set(mismatch))[:10]}; the check is not believed")
        print(f"WARNING property={prop}: runs {sorted(set(mismatch))[:10]} are not deterministic "
              f"(the code under test behaves differently for the same seed); the violation above "
              f"was confirmed by replay in a fresh process")

    # ---- evidence
    wall = time.monotonic() - t_start
    if not args.no_evidence:
        write_evidence(mod, prop, verif_seed, tier, records, exhausted, batch_s, wall,
                       len(rec2) + fresh_pairs, fresh_pairs, n_violating, reported,
                       list(known_hits), jobs, sample_idx)
    status = "held" if rc == 0 else "VIOLATED"
    print(f"RESULT property={prop} {status}: {len(records)} runs, "
          f"{n_violating} violating, known={len(known_hits)}, wall={wall:.1f}s")
    return rc


def write_evidence(mod, prop, verif_seed, tier, records, exhausted, batch_s, wall,
                   det_pairs, fresh_pairs, n_violating, reported, known_hits, jobs,
                   sample_idx):
    counters: dict[str, int] = {}
    sim_time: dict[str, float] = {}
    inter = set()
    nontriv = set()
    cov = set()
    events = 0
    for r in records:
        for k, v in r["counters"].items():
            counters[k] = counters.get(k, 0) + v
        for k, v in r["sim_time"].items():
            sim_time[k] = sim_time.get(k, 0.0) + v
        if r["interleaving"] is not None:
            inter.add(r["interleaving"])
        if r["nontrivial"]:
            nontriv.add(r["digest"])
        cov.update(r["coverage_keys"])
        events += r["events"]
    faults = {k[len("fault."):]: v for k, v in sorted(counters.items())
              if k.startswith("fault.")}
    probes = {k[len("probe."):]: v for k, v in sorted(counters.items())
              if k.startswith("probe.")}
    other = {k: v for k, v in sorted(counters.items())
             if not k.startswith(("fault.", "probe."))}
    samples = []
    for r in records:
        if r["index"] in sample_idx and "case" in r:
            s = {"run_index": r["index"], "digest": r["digest"]}
            desc = getattr(mod, "describe", None)
            s["case"] = desc(r["case"]) if desc else r["case"]
            if len(json.dumps(s["case"])) > 3000:
                s["case"] = json.dumps(s["case"])[:3000] + "...(truncated)"
            s["trace_head"] = r.get("log_head", [])[:12]
            samples.append(s)
    coverage = {
        "evaluations": len(records),
        "distinct_nontrivial": len(nontriv),
        "rule": mod.RULE,
        "samples": samples,
        "runs_per_hour": round(len(records) / max(batch_s, 1e-9) * 3600),
        "seeds": {"VERIF_SEED": verif_seed, "run_seed": "sha256(VERIF_SEED:property:index)",
                  "first_index": records[0]["index"], "last_index": records[-1]["index"],
                  "order": "chunks of consecutive run indices, worked through in a fixed "
                           "golden-ratio order; when the wall budget ends the batch early the "
                           "explored set is a prefix of that order (budget_exhausted says so)"},
        "simulated_time_covered": {k: round(v, 6) for k, v in sorted(sim_time.items())},
        "fault_kinds": faults,
        "distinct_interleavings": len(inter),
        "distinct_interleavings_measure": getattr(mod, "INTERLEAVING_MEASURE", ""),
        "coverage_cells": len(cov),
        "coverage_cells_list": sorted(cov)[:120],
        "probes": probes,
        "counters": other,
        "events": events,
        "real_vs_stub": getattr(mod, "REAL_VS_STUB", {}),
        "determinism_pairs_checked": det_pairs,
        "determinism_fresh_interpreter_pairs": fresh_pairs,
        "budget_exhausted": exhausted,
        "jobs": jobs,
        "violating_runs": n_violating,
        "replays": reported,
        "known_findings_hit": known_hits,
        "exhaustive": False,
    }
    extra = getattr(mod, "evidence_extra", None)
    if extra:
        coverage.update(extra(records))
    ev = {
        "property_id": prop,
        "tier": tier,
        "seed": verif_seed,
        "level": mod.LEVEL,
        "coverage": coverage,
        "assumptions": list(getattr(mod, "ASSUMPTIONS", [])),
        "wall_s": round(wall, 2),
        "violations": len(reported),
    }
    EVIDENCE_DIR.mkdir(exist_ok=True)
    (EVIDENCE_DIR / f"{prop}.json").write_text(json.dumps(ev, indent=1, sort_keys=True))
