"""Virtual wall clock seen by py-pde's RealtimeInterrupts and the Controller profiler."""

from __future__ import annotations

import contextlib
import importlib


class VirtualClock:
    """Module-like object offering the `time` functions py-pde reads.

    The clock only moves when the simulator advances it (`advance`), e.g. by the seeded
    cost of a solver step; `reads` counts how often the system looked at it.
    """

    def __init__(self, start: float = 1000.0):
        self.now = float(start)
        self.reads = 0
        self.frozen = False

    def advance(self, seconds: float) -> None:
        if not self.frozen and seconds > 0:
            self.now += float(seconds)

    # the functions of the `time` module used by py-pde
    def monotonic(self) -> float:
        self.reads += 1
        return self.now

    def time(self) -> float:
        self.reads += 1
        return self.now

    def process_time(self) -> float:
        self.reads += 1
        return self.now

    def perf_counter(self) -> float:
        self.reads += 1
        return self.now

    def sleep(self, seconds: float) -> None:
        self.advance(seconds)


@contextlib.contextmanager
def installed(clock: VirtualClock):
    """Route py-pde's wall-clock reads to `clock` for the duration of the block."""
    interrupts = importlib.import_module("pde.trackers.interrupts")
    controller = importlib.import_module("pde.solvers.controller")
    old_time = interrupts.time
    old_get = controller.Controller._get_current_time
    interrupts.time = clock
    controller.Controller._get_current_time = staticmethod(clock.process_time)
    try:
        yield clock
    finally:
        interrupts.time = old_time
        controller.Controller._get_current_time = old_get
