#!/venv/bin/python
"""Line/branch coverage of /repo/droplets reached by a check (diagnostic only, not a check).

usage: tools/cov.py PROP [--runs N] [--tier quick] [--stride K]
Runs indices 0, K, 2K, ... (N of them) of the check in this process under coverage.py and
prints, per library file, the lines never executed.  Used to find behaviour behind a
property that the workload does not reach.
"""
import argparse
import os
import sys
from pathlib import Path

VERIF = Path(__file__).resolve().parent.parent
if os.environ.get("VERIF_REEXEC") != "1":
    env = dict(os.environ, VERIF_REEXEC="1", PYTHONHASHSEED="0", MPLBACKEND="Agg",
               NUMBA_DISABLE_JIT=os.environ.get("NUMBA_DISABLE_JIT", "0"))
    os.execve(sys.executable, [sys.executable, __file__] + sys.argv[1:], env)
sys.path.insert(0, str(VERIF))
os.chdir(VERIF)

import coverage  # noqa: E402


def main():
    ap = argparse.ArgumentParser()
    ap.add_argument("prop")
    ap.add_argument("--runs", type=int, default=300)
    ap.add_argument("--tier", default="quick")
    ap.add_argument("--stride", type=int, default=1)
    ap.add_argument("--files", nargs="*")
    args = ap.parse_args()
    from simkit import runner

    cov = coverage.Coverage(source=[runner.REPO + "/droplets"], branch=True, data_file=None)
    cov.start()
    runner.prepare_environment()
    mod = runner.load_check(args.prop)
    seed = int(os.environ.get("VERIF_SEED", runner.DEFAULT_SEED))
    nviol = 0
    for k in range(args.runs):
        i = k * args.stride
        out = runner.run_case(mod, runner.make_case(mod, seed, args.tier, i))
        nviol += bool(out.violations)
    cov.stop()
    print(f"{args.prop}: {args.runs} runs, {nviol} violating")
    cov.report(show_missing=True, skip_empty=True, file=sys.stdout,
               include=[f"*{f}*" for f in args.files] if args.files else None)


if __name__ == "__main__":
    main()
