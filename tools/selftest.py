#!/venv/bin/python
"""Sensitivity self-test: apply each mutant in /verif/mutants to a scratch copy of
/repo/droplets (outside /repo and /verif), run the quick check of its property against
the copy and compare the exit status with the expectation.

usage: tools/selftest.py [PROP ...] [--only NAME] [--jobs N] [--tier quick]
A mutant file is JSON: {"property": "C08", "edits": [{"file": "droplets/x.py", "old": "...",
"new": "..."}], "expect": "caught" | "not_caught", "why": "..."}
"""
import argparse
import json
import os
import shutil
import subprocess
import sys
import tempfile
from concurrent.futures import ThreadPoolExecutor
from pathlib import Path

VERIF = Path(__file__).resolve().parent.parent
REPO = Path(os.environ.get("VERIF_REPO", "/repo"))


def run_one(path: Path, tier: str, jobs: int, runs: int | None):
    spec = json.loads(path.read_text())
    scratch = Path(tempfile.mkdtemp(prefix="verif-mut-"))
    try:
        shutil.copytree(REPO / "droplets", scratch / "droplets",
                        ignore=shutil.ignore_patterns("__pycache__"))
        for e in spec["edits"]:
            f = scratch / e["file"]
            s = f.read_text()
            if s.count(e["old"]) != 1:
                return path.name, spec, "STALE", f"pattern found {s.count(e['old'])}x in {e['file']}"
            f.write_text(s.replace(e["old"], e["new"]))
        env = dict(os.environ)
        env.pop("VERIF_REEXEC", None)
        env["VERIF_REPO"] = str(scratch)
        env["VERIF_REPLAY_DIR"] = str(scratch / "replays")
        cmd = [str(VERIF / "check"), spec["property"], "--tier", tier, "--no-evidence",
               "--jobs", str(jobs)]
        if runs:
            cmd += ["--runs", str(runs)]
        p = subprocess.run(cmd, env=env, capture_output=True, text=True, cwd=str(VERIF),
                           timeout=3600)
        viol = [l for l in p.stdout.splitlines() if l.startswith("VIOLATION")]
        detail = [l for l in p.stdout.splitlines() if l.startswith("  C")][:2]
        if p.returncode == 1 and viol:
            got = "caught"
        elif p.returncode == 0:
            got = "not_caught"
        else:
            got = f"error(rc={p.returncode})"
            detail = p.stdout.splitlines()[-8:] + p.stderr.splitlines()[-8:]
        return path.name, spec, got, " | ".join(detail)[:400]
    finally:
        shutil.rmtree(scratch, ignore_errors=True)


def main():
    ap = argparse.ArgumentParser()
    ap.add_argument("props", nargs="*")
    ap.add_argument("--only")
    ap.add_argument("--tier", default="quick")
    ap.add_argument("--jobs", type=int, default=8)
    ap.add_argument("--parallel", type=int, default=2)
    ap.add_argument("--runs", type=int)
    args = ap.parse_args()
    files = sorted((VERIF / "mutants").glob("*/*.json"))
    if args.props:
        files = [f for f in files if f.parent.name.upper() in {p.upper() for p in args.props}]
    if args.only:
        files = [f for f in files if args.only in f.name]
    bad = 0
    with ThreadPoolExecutor(args.parallel) as ex:
        for name, spec, got, detail in ex.map(
                lambda f: run_one(f, args.tier, args.jobs, args.runs), files):
            exp = spec.get("expect", "caught")
            ok = got == exp
            bad += not ok
            print(f"{'OK  ' if ok else 'FAIL'} {spec['property']} {name:40s} expected={exp} "
                  f"got={got} {detail}", flush=True)
    print(f"selftest: {len(files) - bad}/{len(files)} as expected")
    return 1 if bad else 0


if __name__ == "__main__":
    sys.exit(main())
