#!/bin/bash
# Full sensitivity regression: every mutant (tools/selftest.py), every seeded defect and every
# benign refactor against the checks, from the current directory (use with `vp run`).
#   vp run --timeout 4h -- tools/regress.sh [mutants|seeded|all]
WHAT=${1:-all}
mkdir -p selftest_results
if [ "$WHAT" != seeded ]; then
  tools/selftest.py --parallel 2 --jobs 8 > selftest_results/mutants.log 2>&1
  tail -1 selftest_results/mutants.log
fi
if [ "$WHAT" != mutants ]; then
  one() {
    d=$1
    p=$(/venv/bin/python -c "import json,sys;m=json.load(open('$d/meta.json'));print(m.get('check_with',m['property']))")
    tools/seeded.py $d $p --jobs 5 2>&1 | head -3
  }
  export -f one
  ls -d seeded/*/ | xargs -P 3 -I{} bash -c 'one {}' > selftest_results/seeded.log 2>&1
  for d in benign/*/; do
    tools/seeded.py $d C06 C07 C08 C09 C11 C14 C15 C20 2>&1 | grep -E "CAUGHT|ERROR" >> selftest_results/seeded.log
  done
  grep -c "^CAUGHT" selftest_results/seeded.log; grep -E "^NOT-CAUGHT|^ERROR" selftest_results/seeded.log
fi
