#!/bin/bash
# Thorough tier of every claimed check, one after the other (for background soaking:
#   vp run --timeout 4h -- tools/soak.sh [jobs] [seed])
JOBS=${1:-16}; export VERIF_SEED=${2:-20260929}
for p in C06 C07 C08 C09 C11 C14 C15 C20; do
  ./check $p --tier thorough --jobs $JOBS --no-evidence 2>&1 | grep -E "SEED|RESULT|VIOLATION|HARNESS|KNOWN|WARNING|^  C"
done
