#!/venv/bin/python
"""Combined line coverage of /repo/droplets reached by all claimed checks (diagnostic only).

usage: tools/covall.py [--runs N] [--tier quick]   (strides through the run indices of each check)
"""
import argparse
import os
import sys
from pathlib import Path

VERIF = Path(__file__).resolve().parent.parent
if os.environ.get("VERIF_REEXEC") != "1":
    env = dict(os.environ, VERIF_REEXEC="1", PYTHONHASHSEED="0", MPLBACKEND="Agg",
               NUMBA_DISABLE_JIT=os.environ.get("NUMBA_DISABLE_JIT", "1"))
    os.execve(sys.executable, [sys.executable, __file__] + sys.argv[1:], env)
sys.path.insert(0, str(VERIF))
os.chdir(VERIF)

import coverage  # noqa: E402


def main():
    ap = argparse.ArgumentParser()
    ap.add_argument("--runs", type=int, default=200)
    ap.add_argument("--tier", default="quick")
    ap.add_argument("--props", nargs="*", default=["C06", "C07", "C08", "C09", "C11", "C14", "C15", "C20"])
    args = ap.parse_args()
    from simkit import runner

    cov = coverage.Coverage(source=[runner.REPO + "/droplets"], branch=False, data_file=None)
    cov.start()
    runner.prepare_environment()
    seed = int(os.environ.get("VERIF_SEED", runner.DEFAULT_SEED))
    for prop in args.props:
        mod = runner.load_check(prop)
        total = mod.TIERS[args.tier]["runs"] if hasattr(mod, "TIERS") else 10000
        stride = max(1, total // args.runs)
        nviol = 0
        for k in range(args.runs):
            out = runner.run_case(mod, runner.make_case(mod, seed, args.tier, k * stride))
            nviol += bool(out.violations)
        print(f"{prop}: {args.runs} runs stride {stride}, {nviol} violating", flush=True)
    cov.stop()
    cov.report(show_missing=True, skip_empty=True, file=sys.stdout)


if __name__ == "__main__":
    main()
