#!/venv/bin/python
"""Automatic mutation survey (diagnostic, not a registered check).

Small syntactic mutants of the library code behind the claimed properties are generated from
the AST, filtered by the pinned test-suite (a mutant the suite kills is not a "realistic change
that passes the existing tests"), and the survivors are run against the checks in a lean
single-process survey mode (strided run indices, stop at the first violation, no minimisation).
What survives both is listed for manual triage: it is either irrelevant to the properties
(equivalent mutant, behaviour no statement speaks about) or a gap in workload / oracles.

  tools/mutsurvey.py gen  [--out sites.json]
  tools/mutsurvey.py run  --sites sites.json --sample N [--seed S] [--workers W] --out res.jsonl
  tools/mutsurvey.py one  PROP --budget RUNS             (survey mode of one check; VERIF_REPO set)
  tools/mutsurvey.py show SITE_ID --sites sites.json      (print the mutated lines as a diff)
  tools/mutsurvey.py report res.jsonl

Scratch copies live under /tmp/verif-mutsurvey-* and are removed after each mutant.
"""
from __future__ import annotations

import argparse
import ast
import copy
import difflib
import json
import os
import random
import shutil
import subprocess
import sys
import tempfile
import time
from pathlib import Path

VERIF = Path(__file__).resolve().parent.parent
REPO = Path(os.environ.get("MUTSURVEY_REPO", "/repo"))

FILES = ["droplets/droplet_tracks.py", "droplets/droplets.py", "droplets/emulsions.py",
         "droplets/image_analysis.py", "droplets/trackers.py", "droplets/tools/spherical.py"]

# functions no claimed property speaks about (plotting, text, geometry/FFT of N/A properties)
EXCLUDE_FUNCS = {
    "__repr__", "__str__", "plot", "plot_positions", "_get_mpl_patch", "get_triangulation",
    "_load", "from_random", "get_neighbor_distances", "get_structure_factor", "get_length_scale",
    "interface_position", "interface_curvature", "surface_area_approx", "volume_approx",
    "contiguous_true_regions", "points_cartesian_to_spherical", "points_spherical_to_cartesian",
    "spherical_index_k", "spherical_index_lm", "spherical_index_count",
    "spherical_index_count_optimal", "radius_from_surface", "make_surface_from_radius_compiled",
    "threshold_otsu",
}

# order in which the checks are tried for mutants of a file (most likely killer first)
CHECK_ORDER = {
    "droplets/droplet_tracks.py": ["C06", "C07", "C20", "C08", "C09", "C15", "C14", "C11"],
    "droplets/droplets.py": ["C11", "C20", "C08", "C09", "C07", "C06", "C14", "C15"],
    "droplets/emulsions.py": ["C20", "C08", "C14", "C06", "C09", "C15", "C07", "C11"],
    "droplets/image_analysis.py": ["C09", "C14", "C15", "C20", "C11", "C08", "C06", "C07"],
    "droplets/trackers.py": ["C14", "C09", "C15", "C08", "C20", "C06", "C07", "C11"],
    "droplets/tools/spherical.py": ["C11", "C20", "C09", "C14", "C08", "C15", "C06", "C07"],
}
# survey budgets are run counts (wall time depends on what else the machine is doing)
BUDGET = {"C06": 1500, "C07": 1500, "C08": 160, "C09": 450, "C11": 1500, "C14": 130, "C15": 60, "C20": 2000}

SWAP_NAMES = {"min": "max", "max": "min", "first": "last", "last": "first", "start": "end",
              "end": "start", "argmin": "argmax", "argmax": "argmin", "any": "all", "all": "any"}
CMP = {ast.Lt: ast.LtE, ast.LtE: ast.Lt, ast.Gt: ast.GtE, ast.GtE: ast.Gt, ast.Eq: ast.NotEq,
       ast.NotEq: ast.Eq, ast.Is: ast.IsNot, ast.IsNot: ast.Is, ast.In: ast.NotIn, ast.NotIn: ast.In}
BIN = {ast.Add: ast.Sub, ast.Sub: ast.Add, ast.Mult: ast.Div, ast.Div: ast.Mult,
       ast.FloorDiv: ast.Div, ast.Mod: ast.Mult}


def _is_log_call(node) -> bool:
    if isinstance(node, ast.Expr) and isinstance(node.value, ast.Call):
        f = node.value.func
        if isinstance(f, ast.Attribute) and isinstance(f.value, ast.Name) and \
                f.value.id in ("_logger", "logger", "logging", "warnings"):
            return True
    return False


class Enumerator(ast.NodeVisitor):
    """Walks a module and lists mutation sites as (node path id, kind, detail)."""

    def __init__(self):
        self.sites = []
        self.stack = []

    def add(self, node, kind, detail):
        self.sites.append({"func": ".".join(self.stack) or "<module>", "lineno": node.lineno,
                           "col": node.col_offset, "kind": kind, "detail": detail,
                           "node": type(node).__name__})

    # --- scoping
    def visit_ClassDef(self, node):
        self.stack.append(node.name)
        for b in node.body:
            self.visit(b)
        self.stack.pop()

    def visit_FunctionDef(self, node):
        if node.name in EXCLUDE_FUNCS:
            return
        self.stack.append(node.name)
        for d in node.args.defaults + [d for d in node.args.kw_defaults if d is not None]:
            self.visit(d)
        body = node.body
        if body and isinstance(body[0], ast.Expr) and isinstance(body[0].value, ast.Constant) \
                and isinstance(body[0].value.value, str):
            body = body[1:]
        for b in body:
            self.visit(b)
        self.stack.pop()

    visit_AsyncFunctionDef = visit_FunctionDef

    # --- things not to touch
    def visit_Raise(self, node):
        pass

    def visit_Assert(self, node):
        pass

    def visit_Import(self, node):
        pass

    visit_ImportFrom = visit_Import

    def visit_AnnAssign(self, node):
        if node.value is not None:
            if self.stack:
                self.add(node, "del_stmt", "annotated assignment")
            self.visit(node.value)

    def visit_JoinedStr(self, node):
        pass

    # --- statements
    def visit_Expr(self, node):
        if _is_log_call(node):
            return
        if isinstance(node.value, ast.Constant):
            return
        if self.stack:
            self.add(node, "del_stmt", "expression statement")
        self.generic_visit(node)

    def visit_Assign(self, node):
        if self.stack:
            self.add(node, "del_stmt", "assignment")
        self.generic_visit(node)

    def visit_AugAssign(self, node):
        if self.stack:
            self.add(node, "del_stmt", "augmented assignment")
            if type(node.op) in BIN:
                self.add(node, "augop", type(node.op).__name__)
        self.generic_visit(node)

    def visit_Continue(self, node):
        self.add(node, "del_stmt", "continue")

    def visit_Break(self, node):
        self.add(node, "del_stmt", "break")

    def visit_If(self, node):
        self.add(node, "negate", "if")
        self.generic_visit(node)

    def visit_While(self, node):
        self.add(node, "negate", "while")
        self.generic_visit(node)

    def visit_IfExp(self, node):
        self.add(node, "negate", "ifexp")
        self.generic_visit(node)

    # --- expressions
    def visit_Compare(self, node):
        for i, op in enumerate(node.ops):
            if type(op) in CMP:
                self.add(node, "cmp", f"{i}:{type(op).__name__}")
        self.generic_visit(node)

    def visit_BinOp(self, node):
        if isinstance(node.op, ast.Mod) and isinstance(node.left, ast.Constant) and \
                isinstance(node.left.value, str):
            return
        if type(node.op) in BIN:
            self.add(node, "binop", type(node.op).__name__)
        if isinstance(node.op, ast.Pow):
            self.add(node, "pow", "exponent+1")
        self.generic_visit(node)

    def visit_BoolOp(self, node):
        self.add(node, "boolop", type(node.op).__name__)
        self.generic_visit(node)

    def visit_UnaryOp(self, node):
        if isinstance(node.op, (ast.Not, ast.USub)):
            self.add(node, "unary", type(node.op).__name__)
        self.generic_visit(node)

    def visit_Constant(self, node):
        v = node.value
        if isinstance(v, bool):
            self.add(node, "const", repr(v))
        elif isinstance(v, (int, float)) and not isinstance(v, bool):
            self.add(node, "const", repr(v))

    def visit_Call(self, node):
        for i, kw in enumerate(node.keywords):
            if kw.arg is not None:
                self.add(node, "drop_kw", f"{i}:{kw.arg}")
        f = node.func
        if isinstance(f, ast.Attribute) and f.attr == "copy" and not node.args and not node.keywords:
            self.add(node, "uncopy", "x.copy() -> x")
        self.generic_visit(node)

    def visit_Attribute(self, node):
        if node.attr in SWAP_NAMES:
            self.add(node, "swap_attr", node.attr)
        self.generic_visit(node)

    def visit_Name(self, node):
        if node.id in SWAP_NAMES and isinstance(node.ctx, ast.Load):
            self.add(node, "swap_name", node.id)

    def visit_Subscript(self, node):
        # annotations like list[int] inside bodies are rare; indices are mutated via Constant
        self.generic_visit(node)


def enumerate_sites():
    out = []
    for f in FILES:
        tree = ast.parse((REPO / f).read_text())
        en = Enumerator()
        en.visit(tree)
        for k, s in enumerate(en.sites):
            s["file"] = f
            s["id"] = f"{Path(f).stem}:{k}"
            s["k"] = k
            out.append(s)
    return out


class Applier(ast.NodeTransformer):
    """Re-walks the tree in the Enumerator's order and rewrites site number `k`."""

    def __init__(self, site):
        self.site = site
        self.done = False

    def _hit(self, node, kind, detail=None):
        s = self.site
        return (not self.done and type(node).__name__ == s["node"] and node.lineno == s["lineno"]
                and node.col_offset == s["col"] and kind == s["kind"]
                and (detail is None or detail == s["detail"]))

    def generic_visit(self, node):
        return super().generic_visit(node)

    def visit(self, node):
        s = self.site
        if self.done or not hasattr(node, "lineno"):
            return super().visit(node)
        kind = s["kind"]
        if kind == "del_stmt" and self._hit(node, kind):
            self.done = True
            return ast.copy_location(ast.Pass(), node)
        if kind == "augop" and self._hit(node, kind):
            self.done = True
            node.op = BIN[type(node.op)]()
            return node
        if kind == "negate" and self._hit(node, kind):
            self.done = True
            node.test = ast.UnaryOp(op=ast.Not(), operand=node.test)
            return ast.fix_missing_locations(node)
        if kind == "cmp" and self._hit(node, kind):
            i = int(s["detail"].split(":")[0])
            self.done = True
            node.ops[i] = CMP[type(node.ops[i])]()
            return node
        if kind == "binop" and self._hit(node, kind):
            self.done = True
            node.op = BIN[type(node.op)]()
            return node
        if kind == "pow" and self._hit(node, kind):
            self.done = True
            node.right = ast.BinOp(left=node.right, op=ast.Add(), right=ast.Constant(1))
            return ast.fix_missing_locations(node)
        if kind == "boolop" and self._hit(node, kind):
            self.done = True
            node.op = ast.Or() if isinstance(node.op, ast.And) else ast.And()
            return node
        if kind == "unary" and self._hit(node, kind):
            self.done = True
            return node.operand
        if kind == "const" and self._hit(node, kind):
            self.done = True
            v = node.value
            if isinstance(v, bool):
                nv = not v
            elif v == 0:
                nv = type(v)(1)
            elif v == 1:
                nv = type(v)(0) if isinstance(v, int) else 2.0
            else:
                nv = v + 1
            return ast.copy_location(ast.Constant(nv), node)
        if kind == "drop_kw" and self._hit(node, kind):
            i = int(s["detail"].split(":")[0])
            self.done = True
            del node.keywords[i]
            return node
        if kind == "uncopy" and self._hit(node, kind):
            self.done = True
            return node.func.value
        if kind == "swap_attr" and self._hit(node, kind):
            self.done = True
            node.attr = SWAP_NAMES[node.attr]
            return node
        if kind == "swap_name" and self._hit(node, kind):
            self.done = True
            node.id = SWAP_NAMES[node.id]
            return node
        return super().visit(node)


def mutate_source(site) -> tuple[str, str]:
    src = (REPO / site["file"]).read_text()
    tree = ast.parse(src)
    base = ast.unparse(tree)
    ap = Applier(site)
    new = ap.visit(copy.deepcopy(tree))
    if not ap.done:
        raise RuntimeError(f"site {site['id']} not found")
    ast.fix_missing_locations(new)
    return base, ast.unparse(new)


def show(site) -> str:
    base, new = mutate_source(site)
    return "\n".join(l for l in difflib.unified_diff(base.splitlines(), new.splitlines(), lineterm="",
                                                     n=2) if not l.startswith(("---", "+++")))


# --------------------------------------------------------------------------- survey mode


def survey_one(prop: str, budget: float) -> int:
    """Runs strided indices of one check in this process until the first violation that is not
    a known finding (exit 1, prints KILLED ...) or the budget ends (exit 0)."""
    sys.path.insert(0, str(VERIF))
    os.chdir(VERIF)
    from simkit import runner

    runner.prepare_environment()
    mod = runner.load_check(prop)
    known = runner.load_known()
    seed = int(os.environ.get("VERIF_SEED", runner.DEFAULT_SEED))
    total = mod.TIERS["quick"]["runs"]
    # a low-discrepancy walk through the index space, so every region (exhaustive prefixes,
    # fixed probe histories, periodic special cases) is sampled early
    step = int(total * 0.6180339887) | 1
    i = 0
    t0 = time.monotonic()
    n = 0
    while n < budget and n < total and time.monotonic() - t0 < 600:
        idx = (i * step) % total
        i += 1
        n += 1
        try:
            out = runner.run_case(mod, runner.make_case(mod, seed, "quick", idx))
        except BaseException as exc:  # noqa: BLE001
            print(f"KILLED {prop} harness-exception at run {idx}: {type(exc).__name__}: {exc}"[:300])
            return 1
        for v in out.violations:
            if runner.match_known(prop, v.to_json(), known) is None:
                print(f"KILLED {prop} run {idx} after {n} runs: {v.oracle}: {v.message}"[:400])
                return 1
    print(f"SURVIVED {prop} {n} runs in {time.monotonic() - t0:.0f}s")
    return 0


# --------------------------------------------------------------------------- driver


def _env():
    env = dict(os.environ)
    env.update(PYTHONHASHSEED="0", MPLBACKEND="Agg", PYTHONDONTWRITEBYTECODE="1",
               PY_DROPLETS_VERIF="1", VERIF_REEXEC="1")
    for k in ("OMP_NUM_THREADS", "OPENBLAS_NUM_THREADS", "MKL_NUM_THREADS", "NUMBA_NUM_THREADS",
              "NUMEXPR_NUM_THREADS"):
        env[k] = "1"
    return env


def run_mutant(site, skip_tests=False) -> dict:
    res = {"id": site["id"], "file": site["file"], "func": site["func"], "lineno": site["lineno"],
           "kind": site["kind"], "detail": site["detail"]}
    try:
        base, new = mutate_source(site)
    except Exception as exc:  # noqa: BLE001
        res["status"] = f"gen-error {exc}"
        return res
    if base == new:
        res["status"] = "noop"
        return res
    res["diff"] = show(site)[:1500]
    scratch = Path(tempfile.mkdtemp(prefix="verif-mutsurvey-"))
    try:
        shutil.copytree(REPO / "droplets", scratch / "droplets",
                        ignore=shutil.ignore_patterns("__pycache__"))
        (scratch / site["file"]).write_text(new)
        try:
            compile(new, site["file"], "exec")
        except SyntaxError as exc:
            res["status"] = f"syntax-error {exc}"
            return res
        env = _env()
        if not skip_tests:
            shutil.copytree(REPO / "tests", scratch / "tests", ignore=shutil.ignore_patterns("__pycache__"))
            shutil.copytree(REPO / "examples", scratch / "examples")
            shutil.copy(REPO / "pyproject.toml", scratch / "pyproject.toml")
            tenv = dict(env)
            tenv.pop("VERIF_REEXEC")
            tenv["NUMBA_CACHE_DIR"] = str(scratch / "nbcache")
            t0 = time.monotonic()
            try:
                p = subprocess.run([sys.executable, "-m", "pytest", "-q", "-x", "-p", "no:cacheprovider",
                                    "--timeout=300"], cwd=scratch, env=tenv, capture_output=True,
                                   text=True, timeout=900)
                rc = p.returncode
                tail = (p.stdout.strip().splitlines() or [""])[-1]
            except subprocess.TimeoutExpired:
                rc, tail = 124, "timeout"
            res["tests_s"] = round(time.monotonic() - t0, 1)
            if rc != 0:
                res["status"] = "killed-by-tests"
                res["tests_tail"] = tail[:200]
                return res
        env["VERIF_REPO"] = str(scratch)
        tried = []
        for prop in CHECK_ORDER[site["file"]]:
            t0 = time.monotonic()
            try:
                p = subprocess.run([sys.executable, str(Path(__file__).resolve()), "one", prop,
                                    "--budget", str(BUDGET[prop])], env=env, capture_output=True,
                                   text=True, timeout=900, cwd=str(VERIF))
                rc, out = p.returncode, (p.stdout.strip().splitlines() or [p.stderr[-300:]])[-1]
            except subprocess.TimeoutExpired:
                rc, out = 1, f"KILLED {prop} hang"
            tried.append({"prop": prop, "rc": rc, "s": round(time.monotonic() - t0, 1), "out": out[:400]})
            if rc != 0:
                res["status"] = "killed-by-check"
                res["killer"] = prop
                res["killer_out"] = out[:400]
                res["tried"] = tried
                return res
        res["status"] = "survived"
        res["tried"] = tried
        return res
    finally:
        shutil.rmtree(scratch, ignore_errors=True)


def main():
    ap = argparse.ArgumentParser()
    sub = ap.add_subparsers(dest="cmd", required=True)
    g = sub.add_parser("gen")
    g.add_argument("--out", default="-")
    r = sub.add_parser("run")
    r.add_argument("--sites")
    r.add_argument("--sample", type=int, default=100)
    r.add_argument("--seed", type=int, default=1)
    r.add_argument("--workers", type=int, default=12)
    r.add_argument("--out", required=True)
    r.add_argument("--files", nargs="*")
    r.add_argument("--ids", nargs="*")
    o = sub.add_parser("one")
    o.add_argument("prop")
    o.add_argument("--budget", type=int, default=200, help="number of runs")
    s = sub.add_parser("show")
    s.add_argument("site")
    rp = sub.add_parser("report")
    rp.add_argument("results")
    args = ap.parse_args()

    if args.cmd == "one":
        return survey_one(args.prop.upper(), args.budget)
    if args.cmd == "gen":
        sites = enumerate_sites()
        txt = json.dumps(sites, indent=0)
        if args.out == "-":
            by = {}
            for x in sites:
                by[(x["file"], x["kind"])] = by.get((x["file"], x["kind"]), 0) + 1
            for k in sorted(by):
                print(k, by[k])
            print(len(sites), "sites")
        else:
            Path(args.out).write_text(txt)
            print(len(sites), "sites ->", args.out)
        return 0
    if args.cmd == "show":
        sites = {x["id"]: x for x in enumerate_sites()}
        print(show(sites[args.site]))
        return 0
    if args.cmd == "report":
        rows = [json.loads(l) for l in open(args.results)]
        by = {}
        for x in rows:
            by[x["status"].split()[0]] = by.get(x["status"].split()[0], 0) + 1
        print(by)
        kill = {}
        for x in rows:
            if x["status"] == "killed-by-check":
                kill[x["killer"]] = kill.get(x["killer"], 0) + 1
        print("killers", kill)
        for x in rows:
            if x["status"] == "survived":
                print(f"\n=== {x['id']} {x['file']}:{x['lineno']} {x['func']} [{x['kind']} {x['detail']}]")
                print(x.get("diff", ""))
        return 0
    if args.cmd == "run":
        sites = enumerate_sites()
        if args.files:
            sites = [x for x in sites if any(f in x["file"] for f in args.files)]
        if args.ids:
            sites = [x for x in sites if x["id"] in set(args.ids)]
        else:
            rng = random.Random(args.seed)
            rng.shuffle(sites)
            sites = sites[: args.sample]
        done = set()
        if Path(args.out).exists():
            done = {json.loads(l)["id"] for l in open(args.out)}
        sites = [x for x in sites if x["id"] not in done]
        print(f"{len(sites)} mutants to run", flush=True)
        from concurrent.futures import ThreadPoolExecutor, as_completed

        with ThreadPoolExecutor(args.workers) as ex, open(args.out, "a") as fh:
            futs = {ex.submit(run_mutant, x): x for x in sites}
            for n, f in enumerate(as_completed(futs)):
                res = f.result()
                fh.write(json.dumps(res) + "\n")
                fh.flush()
                print(n + 1, res["id"], res["status"], res.get("killer", ""), flush=True)
        return 0


if __name__ == "__main__":
    sys.exit(main())
