#!/venv/bin/python
"""Rewrite the 'which checks catch which changes' table in DESIGN.md from
selftest_results/*.log (output of tools/selftest.py) and seeded/*/meta.json."""
import glob
import json
import re
from pathlib import Path

VERIF = Path(__file__).resolve().parent.parent
rows = {}
for log in sorted(glob.glob(str(VERIF / "selftest_results" / "*.log"))):
    for line in open(log):
        m = re.match(r"(OK|FAIL)\s+(C\d+)\s+(\S+)\.json\s+expected=(\S+)\s+got=(\S+)\s*(.*)", line)
        if m:
            ok, prop, name, exp, got, detail = m.groups()
            oracle = ", ".join(sorted(set(re.findall(r"C\d+\.O\d+", detail))))
            rows[(prop, name)] = (exp, got, oracle)
out = ["### Mutants (`/verif/mutants/<property>/<name>.json`, run by `tools/selftest.py`, quick tier)", "",
       "`expected=not_caught` rows are negative controls: behaviour-preserving or knife-edge-only",
       "edits on which the check must stay silent.", "",
       "| property | mutant | why / what it changes | expected | result | oracles that fired |", "|---|---|---|---|---|---|"]
for (prop, name), (exp, got, oracle) in sorted(rows.items()):
    spec = json.load(open(VERIF / "mutants" / prop / f"{name}.json")) if (VERIF / "mutants" / prop / f"{name}.json").exists() else {}
    why = spec.get("why", "") or "; ".join(e["file"].split("/")[-1] for e in spec.get("edits", []))
    out.append(f"| {prop} | {name} | {why} | {exp} | {got} | {oracle} |")
n_ok = sum(1 for (e, g, _) in rows.values() if e == g)
out += ["", f"{n_ok}/{len(rows)} as expected.", "",
        "### Seeded defects from independent sub-agents (`/verif/seeded/<id>/`)", "",
        "Each was written by a fresh sub-agent that saw only the property text and a scratch",
        "worktree, confirmed with `tools/intake.sh` (pinned suite passes with the patch; the",
        "agent's demonstration fails with it and passes without it) and then run through",
        "`tools/seeded.py` (quick tier).", "",
        "| id | property | what it does | needs | result | caught by |", "|---|---|---|---|---|---|"]
for f in sorted(glob.glob(str(VERIF / "seeded" / "*" / "meta.json"))):
    m = json.load(open(f))
    out.append(f"| {m['id']} | {m['property']} | {m['what']} | {m['needs_to_manifest']} | {m['result']} | {m.get('caught_by', '')} |")
out += ["", "### Behaviour-preserving refactors (`/verif/benign/<id>/`), negative controls", "",
        "Large refactors written by sub-agents and verified by their own equivalence checks against",
        "the original package; every quick check must stay silent on them.", "",
        "| id | what | result |", "|---|---|---|"]
for f in sorted(glob.glob(str(VERIF / "benign" / "*" / "meta.json"))):
    m = json.load(open(f))
    out.append(f"| {m['id']} | {m['what']} | {m['result']} |")
p = VERIF / "DESIGN.md"
s = p.read_text()
a, b = s.index("<!-- CATCHES:BEGIN -->"), s.index("<!-- CATCHES:END -->")
p.write_text(s[:a] + "<!-- CATCHES:BEGIN -->\n" + "\n".join(out) + "\n" + s[b:])
print(f"{len(rows)} mutant rows, {n_ok} as expected")
