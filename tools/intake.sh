#!/bin/bash
# usage: tools/intake.sh <worktree> <seeded-id> <PROP>
# Confirms a sub-agent's seeded defect (suite passes with it; demo fails with it and passes
# without it) in its scratch worktree and files it under /verif/seeded/<seeded-id>/.
set -u
WT=$1; ID=$2; PROP=$3
cd "$WT" || exit 2
git diff -- droplets > /tmp/intake-$ID.diff
[ -s /tmp/intake-$ID.diff ] || { echo "EMPTY DIFF"; exit 2; }
timeout 300 /venv/bin/python seeded_demo.py > /tmp/intake-$ID.with.log 2>&1; RC_WITH=$?
git checkout -q -- droplets
timeout 300 /venv/bin/python seeded_demo.py > /tmp/intake-$ID.without.log 2>&1; RC_WITHOUT=$?
git apply /tmp/intake-$ID.diff
timeout 1800 /venv/bin/python -m pytest -q -p no:cacheprovider --timeout=900 -x > /tmp/intake-$ID.tests.log 2>&1; RC_TESTS=$?
TESTLINE=$(tail -1 /tmp/intake-$ID.tests.log)
echo "demo with change rc=$RC_WITH, without rc=$RC_WITHOUT, suite rc=$RC_TESTS ($TESTLINE)"
if [ $RC_WITH -ne 0 ] && [ $RC_WITHOUT -eq 0 ] && [ $RC_TESTS -eq 0 ]; then
  mkdir -p /verif/seeded/$ID
  cp /tmp/intake-$ID.diff /verif/seeded/$ID/patch.diff
  cp seeded_demo.py /verif/seeded/$ID/seeded_demo.py
  echo "CONFIRMED $ID"
else
  echo "REJECTED $ID"; tail -5 /tmp/intake-$ID.with.log /tmp/intake-$ID.without.log /tmp/intake-$ID.tests.log
fi
