#!/bin/bash
# False-alarm sweep: quick tier of every claimed check under many batch seeds on the current
# tree (every run must hold).  usage: tools/sweep.sh <first-seed> <last-seed> [tier]
#   vp run --timeout 6h -- tools/sweep.sh 100 140
A=${1:-1}; B=${2:-10}; TIER=${3:-quick}
bad=0
for seed in $(seq $A $B); do
  for p in C06 C07 C08 C09 C11 C14 C15 C20; do
    out=$(VERIF_SEED=$seed ./check $p --tier $TIER --no-evidence 2>&1)
    rc=$?
    echo "seed=$seed $p rc=$rc $(echo "$out" | grep RESULT)"
    if [ $rc -ne 0 ]; then bad=$((bad+1)); echo "$out" | grep -E "VIOLATION|HARNESS|WARNING|^  C" | head -8; 
       mkdir -p sweep_replays; cp replays/*.json sweep_replays/ 2>/dev/null; fi
  done
done
echo "sweep done: $bad non-zero exits"
