#!/venv/bin/python
"""Run checks against a seeded defect without touching /repo.

usage: tools/seeded.py <seeded dir or patch.diff> [PROP ...] [--tier quick] [--runs N]
Copies /repo/droplets to a scratch directory outside /repo and /verif, applies the patch
there (patch -p1), runs `./check PROP` for each property with VERIF_REPO pointing at the
copy, prints one line per property and removes the copy.
"""
import argparse
import json
import os
import shutil
import subprocess
import sys
import tempfile
from pathlib import Path

VERIF = Path(__file__).resolve().parent.parent
REPO = Path("/repo")


def main():
    ap = argparse.ArgumentParser()
    ap.add_argument("target")
    ap.add_argument("props", nargs="*")
    ap.add_argument("--tier", default="quick")
    ap.add_argument("--runs", type=int)
    ap.add_argument("--jobs", type=int, default=16)
    args = ap.parse_args()
    t = Path(args.target)
    patch = t if t.is_file() else t / "patch.diff"
    props = args.props
    if not props and (t / "meta.json").exists():
        props = [json.loads((t / "meta.json").read_text())["property"]]
    scratch = Path(tempfile.mkdtemp(prefix="verif-seeded-"))
    rc_all = 0
    try:
        shutil.copytree(REPO / "droplets", scratch / "droplets",
                        ignore=shutil.ignore_patterns("__pycache__"))
        p = subprocess.run(["patch", "-p1", "-s", "-i", str(patch.resolve())], cwd=scratch,
                           capture_output=True, text=True)
        if p.returncode != 0:
            print("PATCH-FAILED", p.stdout, p.stderr)
            return 2
        for prop in props:
            env = dict(os.environ)
            env.pop("VERIF_REEXEC", None)
            env["VERIF_REPO"] = str(scratch)
            env["VERIF_REPLAY_DIR"] = str(scratch / "replays")
            cmd = [str(VERIF / "check"), prop, "--tier", args.tier, "--no-evidence", "--jobs",
                   str(args.jobs)]
            if args.runs:
                cmd += ["--runs", str(args.runs)]
            r = subprocess.run(cmd, env=env, capture_output=True, text=True, cwd=str(VERIF))
            lines = [l for l in r.stdout.splitlines() if l.startswith(("  C", "VIOLATION", "RESULT",
                                                                       "HARNESS", "KNOWN", "WARNING"))]
            status = {0: "NOT-CAUGHT", 1: "CAUGHT"}.get(r.returncode, f"ERROR rc={r.returncode}")
            print(f"{status} {prop} ({patch})")
            for l in lines[:8]:
                print("   ", l[:400])
            if r.returncode not in (0, 1):
                print(r.stdout[-1500:], r.stderr[-1500:])
                rc_all = 2
    finally:
        shutil.rmtree(scratch, ignore_errors=True)
    return rc_all


if __name__ == "__main__":
    sys.exit(main())
