#!/bin/bash
# usage: tools/intake2.sh <worktree> <n> <seeded-id> <PROP>
# Like intake.sh, for worktrees holding patch_<n>.diff + seeded_demo_<n>.py on a clean tree.
set -u
WT=$1; N=$2; ID=$3; PROP=$4
cd "$WT" || exit 2
git checkout -q -- droplets
[ -s patch_$N.diff ] || { echo "NO PATCH patch_$N.diff"; exit 2; }
timeout 300 /venv/bin/python seeded_demo_$N.py > /tmp/intake-$ID.without.log 2>&1; RC_WITHOUT=$?
git apply patch_$N.diff || { echo "PATCH DOES NOT APPLY"; exit 2; }
timeout 300 /venv/bin/python seeded_demo_$N.py > /tmp/intake-$ID.with.log 2>&1; RC_WITH=$?
timeout 1800 /venv/bin/python -m pytest -q -p no:cacheprovider --timeout=900 -x > /tmp/intake-$ID.tests.log 2>&1; RC_TESTS=$?
TESTLINE=$(tail -1 /tmp/intake-$ID.tests.log)
git checkout -q -- droplets
echo "demo with change rc=$RC_WITH, without rc=$RC_WITHOUT, suite rc=$RC_TESTS ($TESTLINE)"
if [ $RC_WITH -ne 0 ] && [ $RC_WITHOUT -eq 0 ] && [ $RC_TESTS -eq 0 ]; then
  mkdir -p /verif/seeded/$ID
  cp patch_$N.diff /verif/seeded/$ID/patch.diff
  cp seeded_demo_$N.py /verif/seeded/$ID/seeded_demo.py
  echo "CONFIRMED $ID"
else
  echo "REJECTED $ID"; tail -5 /tmp/intake-$ID.with.log /tmp/intake-$ID.without.log /tmp/intake-$ID.tests.log
fi
