#!/venv/bin/python
"""List distinct violation signatures of a batch (diagnostic helper, not a registered check)."""
import collections, json, os, sys
HERE = os.path.dirname(os.path.dirname(os.path.abspath(__file__)))
if os.environ.get("VERIF_REEXEC") != "1":
    env = dict(os.environ, VERIF_REEXEC="1", PYTHONHASHSEED="0", OMP_NUM_THREADS="1",
               OPENBLAS_NUM_THREADS="1", NUMBA_NUM_THREADS="1", MPLBACKEND="Agg")
    os.execve(sys.executable, [sys.executable] + sys.argv, env)
sys.path.insert(0, HERE); os.chdir(HERE)
from simkit import runner
prop, tier, runs = sys.argv[1], sys.argv[2], int(sys.argv[3])
runner.prepare_environment()
mod = runner.load_check(prop)
recs, _ = runner.run_batch(prop, runner.DEFAULT_SEED, tier, list(range(runs)), 16, mod.TIERS[tier].get("chunk", 8), set(), None)
c = collections.Counter(); ex = {}
for r in recs:
    for v in r["violations"]:
        k = json.dumps([v["oracle"], v["signature"]], sort_keys=True)
        c[k] += 1; ex.setdefault(k, (r["index"], v["message"]))
for k, n in c.most_common():
    print(n, k, "| run", ex[k][0], "|", ex[k][1][:260])
print("runs", len(recs), "violating", sum(1 for r in recs if r["violations"]))
